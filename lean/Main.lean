import Hls.Model.Obs
import Hls.Model.Script
/-!
# `hlsdriver` — the model behind the line protocol of PROTOCOL.md
-/
open Hls

def hexVal? (c : Char) : Option Nat :=
  if '0' ≤ c ∧ c ≤ '9' then some (c.toNat - '0'.toNat)
  else if 'a' ≤ c ∧ c ≤ 'f' then some (c.toNat - 'a'.toNat + 10) else none

def hexToBytes? (s : String) : Option ByteArray :=
  let rec go (cs : List Char) (acc : ByteArray) : Option ByteArray :=
    match cs with
    | [] => some acc
    | [_] => none
    | a :: b :: rest =>
      match hexVal? a, hexVal? b with
      | some x, some y => go rest (acc.push (UInt8.ofNat (x * 16 + y)))
      | _, _ => none
  go s.toList ByteArray.empty

def hexToStr? (s : String) : Option Str :=
  match hexToBytes? s with
  | some bs => (String.fromUTF8? bs).map String.toList
  | none => none

def hx (s : Str) : String := Obs.hexOfStr s

/-- the `R:` field: re-parse the written text with the same entry point -/
def rField {α} (parse : Str → Res α) (obs : α → String) (first : String) (text : Str) : String :=
  match parse text with
  | .ok v2 => let o := obs v2; if o == first then "R:=" else "R:" ++ o
  | .err => "R:err"
  | .panic => "R:panic"

def typeOp {α} (parse : Str → Res α) (obs : α → String) (shw : α → Str) (ver : Option (α → Nat))
    (tagOrder : Bool) (payload : Str) : String :=
  match parse payload with
  | .err => "err"
  | .panic => "panic"
  | .ok v =>
    let o := obs v
    let t := shw v
    let r := rField parse obs o t
    let vs := match ver with
      | some f => " V:" ++ toString (f v)
      | none => ""
    if tagOrder then "ok " ++ o ++ " T:" ++ hx t ++ vs ++ " " ++ r
    else "ok " ++ o ++ " T:" ++ hx t ++ " " ++ r ++ vs

def okR {α} (a : α) : Res α := .ok a

def typeDispatch (name : String) (p : Str) : Option String :=
  match name with
  | "ByteRange" => some (typeOp ByteRange.parse Obs.byterange ByteRange.show none false p)
  | "Channels" => some (typeOp Channels.parse Obs.channels Channels.show none false p)
  | "ClosedCaptions" => some (typeOp (fun s => okR (ClosedCaptions.parse s)) Obs.cc ClosedCaptions.show none false p)
  | "Codecs" => some (typeOp (fun s => okR (Codecs.parse s)) Obs.codecs Codecs.show none false p)
  | "DecryptionKey" => some (typeOp DecryptionKey.parse Obs.deckey DecryptionKey.show (some DecryptionKey.requiredVersion) false p)
  | "EncryptionMethod" => some (typeOp EncryptionMethod.parse Obs.method EncryptionMethod.show none false p)
  | "Float" => some (typeOp Float32.parseFloat Obs.f32 Float32.show none false p)
  | "UFloat" => some (typeOp Float32.parseUFloat Obs.f32 Float32.show none false p)
  | "HdcpLevel" => some (typeOp HdcpLevel.parse Obs.hdcp HdcpLevel.show none false p)
  | "InStreamId" => some (typeOp InStreamId.parse Obs.instream InStreamId.show (some InStreamId.requiredVersion) false p)
  | "InitializationVector" => some (typeOp InitializationVector.parse Obs.iv InitializationVector.show none false p)
  | "KeyFormat" => some (typeOp (fun s => okR (KeyFormat.parse s)) Obs.keyformat KeyFormat.show (some fun _ => 5) false p)
  | "KeyFormatVersions" => some (typeOp KeyFormatVersions.parse Obs.versions KeyFormatVersions.show (some fun _ => 5) false p)
  | "MediaType" => some (typeOp MediaType.parse Obs.mtype MediaType.show none false p)
  | "PlaylistType" => some (typeOp PlaylistType.parse Obs.ptype PlaylistType.show (some fun _ => 1) false p)
  | "ProtocolVersion" => some (typeOp ProtocolVersion.parse Obs.nat ProtocolVersion.show none false p)
  | "Resolution" => some (typeOp Resolution.parse Obs.resolution Resolution.show none false p)
  | "StreamData" => some (typeOp StreamData.parse Obs.streamdata StreamData.show (some fun _ => 1) false p)
  | "Value" => some (typeOp Value.parse Obs.value Value.show none false p)
  | _ => none

def tagDispatch (name : String) (p : Str) : Option String :=
  match name with
  | "ExtXVersion" => some (typeOp ExtXVersion.parse Obs.nat ExtXVersion.show (some fun _ => 1) true p)
  | "ExtInf" => some (typeOp ExtInf.parse Obs.extinf ExtInf.show (some ExtInf.requiredVersion) true p)
  | "ExtXByteRange" => some (typeOp ExtXByteRange.parse Obs.byterange ExtXByteRange.show (some fun _ => 4) true p)
  | "ExtXKey" => some (typeOp ExtXKey.parse Obs.xkey ExtXKey.show (some ExtXKey.requiredVersion) true p)
  | "ExtXMap" => some (typeOp ExtXMap.parse Obs.map ExtXMap.show (some fun _ => 6) true p)
  | "ExtXProgramDateTime" => some (typeOp ExtXProgramDateTime.parse Obs.pdt ExtXProgramDateTime.show (some fun _ => 1) true p)
  | "ExtXDateRange" => some (typeOp ExtXDateRange.parse Obs.daterange ExtXDateRange.show (some fun _ => 1) true p)
  | "ExtXMedia" => some (typeOp ExtXMedia.parse Obs.xmedia ExtXMedia.show (some ExtXMedia.requiredVersion) true p)
  | "ExtXSessionData" => some (typeOp ExtXSessionData.parse Obs.sessiondata ExtXSessionData.show (some fun _ => 1) true p)
  | "ExtXSessionKey" => some (typeOp ExtXSessionKey.parse Obs.deckey ExtXSessionKey.show (some DecryptionKey.requiredVersion) true p)
  | "ExtXStart" => some (typeOp ExtXStart.parse Obs.start ExtXStart.show (some fun _ => 1) true p)
  | "VariantStream" => some (typeOp VariantStream.parse Obs.variant VariantStream.show (some fun _ => 1) true p)
  | _ => none

/-- the answer for a value that is already there (built by a constructor), in the format of `type:` / `tag:` -/
def valueLine {α} (parse : Str → Res α) (obs : α → String) (shw : α → Str) (ver : Option (α → Nat))
    (tagOrder : Bool) (v : α) : String :=
  let o := obs v
  let t := shw v
  let r := rField parse obs o t
  let vs := match ver with
    | some f => " V:" ++ toString (f v)
    | none => ""
  if tagOrder then "ok " ++ o ++ " T:" ++ hx t ++ vs ++ " " ++ r
  else "ok " ++ o ++ " T:" ++ hx t ++ " " ++ r ++ vs

def ctorToks (payload : Str) : Option (List (Str × Str)) :=
  if payload.contains '\n' then none else
  let toks := if payload.isEmpty then [] else tokens payload
  allSome (toks.map fun t => if t.isEmpty then none else splitFirst '=' t)

def tokOf (k : String) (ts : List (Str × Str)) : Option Str := (ts.find? fun kv => kv.1 == k.toList).map (·.2)

def onlyKeys (allowed : List String) (ts : List (Str × Str)) : Bool := ts.all fun kv => allowed.any fun a => kv.1 == a.toList

def methodTok? (s : Str) : Option EncryptionMethod :=
  if s == "aes".toList then some .aes128 else if s == "saes".toList then some .sampleAes else none

def durTok? (s : Str) : Option Nat :=
  match parseNat? 128 s with
  | some ns => if ns / 1000000000 < 2 ^ 64 then some ns else none
  | none => none

def lenAtStart? (s : Str) : Option (Nat × Nat) :=
  match splitFirst '@' s with
  | some (l, st) =>
    match parseNat? 64 l, parseNat? 64 st with
    | some len, some start => if start + len < 2 ^ 64 then some (len, start) else none
    | _, _ => none
  | none => none

/-- `ctor:<T>`: the public constructors that are not builders; `none` = `bad-op` -/
def ctorOp (name : String) (payload : Str) : Option String :=
  match ctorToks payload with
  | none => none
  | some ts =>
    match name with
    | "ExtXStart" =>
      if !onlyKeys ["t", "precise"] ts then none else
      match (tokOf "t" ts).bind bits8? with
      | some bits =>
        match Float32.ofBitsFloat bits with
        | .ok f =>
          match tokOf "precise" ts with
          | none => some (valueLine ExtXStart.parse Obs.start ExtXStart.show (some fun _ => 1) true ⟨f, false⟩)
          | some p => (bool01? p).map fun b => valueLine ExtXStart.parse Obs.start ExtXStart.show (some fun _ => 1) true ⟨f, b⟩
        | _ => none
      | none => none
    | "ExtXSessionData" =>
      if !onlyKeys ["id", "value", "uri", "lang"] ts then none else
      match (tokOf "id" ts).bind hexArg? with
      | some id =>
        let data : Option SessionData := match tokOf "value" ts, tokOf "uri" ts with
          | some v, none => (hexArg? v).map SessionData.value
          | none, some u => (hexArg? u).map SessionData.uri
          | _, _ => none
        match data with
        | some d =>
          match tokOf "lang" ts with
          | none => some (valueLine ExtXSessionData.parse Obs.sessiondata ExtXSessionData.show (some fun _ => 1) true ⟨id, d, none⟩)
          | some l => (hexArg? l).map fun lang =>
              valueLine ExtXSessionData.parse Obs.sessiondata ExtXSessionData.show (some fun _ => 1) true ⟨id, d, some lang⟩
        | none => none
      | none => none
    | "DecryptionKey" | "ExtXSessionKey" | "ExtXKey" =>
      if !onlyKeys ["method", "uri"] ts then none else
      match (tokOf "method" ts).bind methodTok?, (tokOf "uri" ts).bind hexArg? with
      | some m, some u =>
        let k : DecryptionKey := ⟨m, u, .missing, none, none⟩
        if name == "DecryptionKey" then
          some (valueLine DecryptionKey.parse Obs.deckey DecryptionKey.show (some DecryptionKey.requiredVersion) true k)
        else if name == "ExtXSessionKey" then
          some (valueLine ExtXSessionKey.parse Obs.deckey ExtXSessionKey.show (some DecryptionKey.requiredVersion) true k)
        else some (valueLine ExtXKey.parse Obs.xkey ExtXKey.show (some ExtXKey.requiredVersion) true (some k))
      | _, _ => none
    | "ExtXDateRange" =>
      if !onlyKeys ["id", "start"] ts then none else
      match (tokOf "id" ts).bind hexArg?, (tokOf "start" ts).bind hexArg? with
      | some id, some st =>
        some (valueLine ExtXDateRange.parse Obs.daterange ExtXDateRange.show (some fun _ => 1) true
          ⟨id, none, some st, none, none, none, none, none, none, false, []⟩)
      | _, _ => none
    | "ExtXMedia" =>
      if !onlyKeys ["type", "group", "name"] ts then none else
      match tokOf "type" ts, (tokOf "group" ts).bind hexArg?, (tokOf "name" ts).bind hexArg? with
      | some t, some g, some n =>
        match MediaType.parse t with
        | .ok ty => some (valueLine ExtXMedia.parse Obs.xmedia ExtXMedia.show (some ExtXMedia.requiredVersion) true
            ⟨ty, none, g, none, none, n, false, false, false, none, none, none⟩)
        | _ => none
      | _, _, _ => none
    | "StreamData" =>
      if !onlyKeys ["bw"] ts then none else
      ((tokOf "bw" ts).bind (parseNat? 64)).map fun bw =>
        valueLine StreamData.parse Obs.streamdata StreamData.show (some fun _ => 1) true ⟨bw, none, none, none, none, none⟩
    | "Channels" =>
      if !onlyKeys ["n"] ts then none else
      ((tokOf "n" ts).bind (parseNat? 64)).map fun n => valueLine Channels.parse Obs.channels Channels.show none false ⟨n, false⟩
    | "Codecs" =>
      if !onlyKeys ["list"] ts then none else
      match tokOf "list" ts with
      | none => some (valueLine (fun s => okR (Codecs.parse s)) Obs.codecs Codecs.show none false ⟨[]⟩)
      | some l => (hexArg? l).map fun x => valueLine (fun s => okR (Codecs.parse s)) Obs.codecs Codecs.show none false ⟨splitAll ',' x⟩
    | "ExtXVersion" =>
      if !onlyKeys ["v"] ts then none else
      match (tokOf "v" ts).bind (parseNat? 64) with
      | some v => if 1 ≤ v && v ≤ 7 && tokOf "v" ts == some (toString v).toList then
          some (valueLine ExtXVersion.parse Obs.nat ExtXVersion.show (some fun _ => 1) true v) else none
      | none => none
    | "ExtInf" =>
      if !onlyKeys ["dur", "title"] ts then none else
      match (tokOf "dur" ts).bind durTok? with
      | some d =>
        match tokOf "title" ts with
        | none => some (valueLine ExtInf.parse Obs.extinf ExtInf.show (some ExtInf.requiredVersion) true ⟨d, none⟩)
        | some t => (hexArg? t).map fun x => valueLine ExtInf.parse Obs.extinf ExtInf.show (some ExtInf.requiredVersion) true ⟨d, some x⟩
      | none => none
    | "ExtXMap" =>
      if !onlyKeys ["uri", "range"] ts then none else
      match (tokOf "uri" ts).bind hexArg? with
      | some u =>
        match tokOf "range" ts with
        | none => some (valueLine ExtXMap.parse Obs.map ExtXMap.show (some fun _ => 6) true ⟨u, none, []⟩)
        | some r => (lenAtStart? r).map fun (len, start) =>
            valueLine ExtXMap.parse Obs.map ExtXMap.show (some fun _ => 6) true ⟨u, some ⟨some start, start + len⟩, []⟩
      | none => none
    | "ExtXByteRange" =>
      if !onlyKeys ["range", "to"] ts then none else
      match tokOf "range" ts, tokOf "to" ts with
      | some r, none => (lenAtStart? r).map fun (len, start) =>
          valueLine ExtXByteRange.parse Obs.byterange ExtXByteRange.show (some fun _ => 4) true ⟨some start, start + len⟩
      | none, some e => (parseNat? 64 e).map fun en =>
          valueLine ExtXByteRange.parse Obs.byterange ExtXByteRange.show (some fun _ => 4) true ⟨none, en⟩
      | _, _ => none
    | "ExtXProgramDateTime" =>
      if !onlyKeys ["t"] ts then none else
      ((tokOf "t" ts).bind hexArg?).map fun x =>
        valueLine ExtXProgramDateTime.parse Obs.pdt ExtXProgramDateTime.show (some fun _ => 1) true ⟨x⟩
    | _ => none

def mediaFields (p : MediaPlaylist) : Res (String × Str) :=
  match p.show with
  | .ok t => .ok ("ok " ++ Obs.media p ++ " T:" ++ hx t ++ " V:" ++ toString p.requiredVersion ++ " " ++ Obs.dField p, t)
  | .err => .err
  | .panic => .panic

def mediaOp (r : Res MediaPlaylist) (rt : Bool) : String :=
  match r with
  | .err => "err"
  | .panic => "panic"
  | .ok p =>
    match mediaFields p with
    | .ok (line, t) =>
      if !rt then line else
      match parseMedia t with
      | .ok p2 =>
        let o1 := Obs.media p; let o2 := Obs.media p2
        let rf := if o1 == o2 then "R:=" else "R:" ++ o2
        let ff := match p2.show with
          | .ok t2 => if t2 == t then "F:1" else "F:0"
          | _ => "F:panic"
        line ++ " " ++ rf ++ " " ++ ff
      | .err => line ++ " R:err F:-"
      | .panic => line ++ " R:panic F:-"
    | _ => "panic"

def masterOp (r : Res MasterPlaylist) (rt : Bool) : String :=
  match r with
  | .err => "err"
  | .panic => "panic"
  | .ok p =>
    let t := p.show
    let line := "ok " ++ Obs.master p ++ " T:" ++ hx t ++ " V:" ++ toString p.requiredVersion ++ " " ++ Obs.aField p ++ " " ++ Obs.sField p
    if !rt then line else
    match parseMaster t with
    | .ok p2 =>
      let o1 := Obs.master p; let o2 := Obs.master p2
      let rf := if o1 == o2 then "R:=" else "R:" ++ o2
      let ff := if p2.show == t then "F:1" else "F:0"
      line ++ " " ++ rf ++ " " ++ ff
    | .err => line ++ " R:err F:-"
    | .panic => line ++ " R:panic F:-"

def ordStr : Ordering → String
  | .lt => "lt" | .eq => "eq" | .gt => "gt"

/-- `cmpkfv` script interpreter -/
def kfvScript (s : Str) : Option KeyFormatVersions :=
  let items := if s.isEmpty then [] else splitAll ',' s
  let rec go : List Str → List Nat → List Nat → Option KeyFormatVersions
    | [], cur, _ => some ⟨cur⟩
    | it :: rest, cur, nums =>
      if it == ['p'] then go rest cur.dropLast nums
      else if it == ['x'] then
        let first10 := nums.take 10
        let v := if first10.all (· == 0) then [] else nums.take 9
        go rest v nums
      else match it with
        | 't' :: n =>
          match parseNat? 64 n with
          | some k => go rest (if k > cur.length then cur else cur.take k) nums
          | none => none
        | _ =>
          match parseNat? 8 it with
          | some k => go rest (if cur.length < 9 then cur ++ [k] else cur) (nums ++ [k])
          | none => none
  go items [] []

def parseBits8 (s : Str) : Option Nat :=
  if s.length != 8 then none else
  s.foldl (fun acc c => match acc, hexVal? c with
    | some a, some v => some (a * 16 + v)
    | _, _ => none) (some 0)

def cmpLine (oa ob : String) (e : Bool) (c : Ordering) (h : Bool) : String :=
  "ok " ++ oa ++ " " ++ ob ++ " E:" ++ Obs.bool e ++ " C:" ++ ordStr c ++ " H:" ++ Obs.bool h

/-- `build_tag:<T>`: run the token script, build, answer like `tag:` -/
def buildTagOp {β α} (tok : β → Str → Str → Option β) (init : β) (build : β → Res α)
    (parse : Str → Res α) (obs : α → String) (shw : α → Str) (ver : α → Nat) (payload : Str) : String :=
  if payload.contains '\n' then "bad-op" else
  match foldTokens tok init payload with
  | none => "bad-op"
  | some b => typeOp (fun _ => build b) obs shw (some ver) true payload |> fun line =>
      -- the R field must re-parse the WRITTEN text with the text parser, not rebuild
      match build b with
      | .ok v =>
        let o := obs v
        let t := shw v
        "ok " ++ o ++ " T:" ++ hx t ++ " V:" ++ toString (ver v) ++ " " ++ rField parse obs o t
      | _ => line

def handle (op : String) (payload : Str) (args : List String) : String :=
  if op.startsWith "ctor:" then (ctorOp (op.drop 5).toString payload).getD "bad-op"
  else if op.startsWith "build_tag:" then
    match (op.drop 10).toString with
    | "ExtXMedia" => buildTagOp mediaTagToken {} ExtXMediaBuilder.build ExtXMedia.parse Obs.xmedia ExtXMedia.show ExtXMedia.requiredVersion payload
    | "ExtXDateRange" => buildTagOp dateRangeToken {} ExtXDateRangeBuilder.build ExtXDateRange.parse Obs.daterange ExtXDateRange.show (fun _ => 1) payload
    | "ExtXSessionData" => buildTagOp sessionDataToken {} ExtXSessionDataBuilder.build ExtXSessionData.parse Obs.sessiondata ExtXSessionData.show (fun _ => 1) payload
    | "StreamData" => buildTagOp streamDataToken {} StreamDataBuilder.build StreamData.parse Obs.streamdata StreamData.show (fun _ => 1) payload
    | "DecryptionKey" => buildTagOp decryptionKeyToken {} DecryptionKeyBuilder.build DecryptionKey.parse Obs.deckey DecryptionKey.show DecryptionKey.requiredVersion payload
    | _ => "bad-op"
  else if op == "build_media" && ((splitAll '\n' payload).filter isParseCall).length ≥ 2 then
    "unsupported"     -- a builder that parses more than once: the model has no builder state after a parse (implementation-side oracle only)
  else if op == "build_media" then
    match buildMediaScript payload with
    | some r => mediaOp r true
    | none => "bad-op"
  else if op == "build_master" then
    match buildMasterScript payload with
    | some r => masterOp r true
    | none => "bad-op"
  else if op == "cmp_holes" then "unsupported"     -- the model's segment list has no empty slots (implementation-side oracle only)
  else if op == "owned_build_media" then
    match buildMediaScript payload with
    | some (.ok p) => "ok " ++ Obs.media p ++ " O:111 C:111"
    | some .err => "err"
    | some .panic => "panic"
    | none => "bad-op"
  else if op == "cmp_build_media" then
    -- two builder scripts: the model's `=` is structural (what `#[derive(PartialEq)]` is), on playlists and on segment lists
    match args with
    | [b] =>
      match hexToStr? b with
      | none => "bad-op"
      | some pb =>
        match buildMediaScript payload, buildMediaScript pb with
        | some (.ok x), some (.ok y) =>
          "ok " ++ Obs.media x ++ " " ++ Obs.media y ++ " E:" ++ Obs.bool (decide (x = y)) ++ " X:" ++ Obs.bool (decide (x.segments = y.segments))
        | none, _ => "bad-op"
        | _, none => "bad-op"
        | _, _ => "err"
    | _ => "bad-op"
  else if op.startsWith "type:" then (typeDispatch (op.drop 5).toString payload).getD "bad-op"
  else if op.startsWith "tag:" then (tagDispatch (op.drop 4).toString payload).getD "bad-op"
  else if op.startsWith "owned:" then
    let what := (op.drop 6).toString
    let r : Option String :=
      if what == "media" then some (match parseMedia payload with
        | .ok p => "ok " ++ Obs.media p
        | .err => "err"
        | .panic => "panic")
      else if what == "master" then some (match parseMaster payload with
        | .ok p => "ok " ++ Obs.master p
        | .err => "err"
        | .panic => "panic")
      else
        let inner := if what.startsWith "type:" then typeDispatch (what.drop 5).toString payload
                     else if what.startsWith "tag:" then tagDispatch (what.drop 4).toString payload else none
        inner.map fun line =>
          match line.splitOn " " with
          | "ok" :: o :: _ => "ok " ++ o
          | _ => line
    match r with
    | some line => if line.startsWith "ok " then line ++ " O:111 C:111" else line
    | none => "bad-op"
  else if op.startsWith "cmpf32:" then
    let t := (op.drop 7).toString
    match parseBits8 payload, args with
    | some a, [b] =>
      match (hexToStr? b).bind parseBits8 with
      | some bb =>
        let mk := if t == "UFloat" then Float32.ofBitsUFloat else Float32.ofBitsFloat
        match mk a, mk bb with
        | .ok x, .ok y =>
          let hb := if t == "UFloat" then Float32.hashBytesUFloat else Float32.hashBytesFloat
          cmpLine (Obs.f32 x) (Obs.f32 y) (Float32.eq x y) (Float32.cmp x y) (hb x == hb y)
        | _, _ => "err"
      | none => "bad-op"
    | _, _ => "bad-op"
  else if op.startsWith "f32:" then
    let t := (op.drop 4).toString
    match parseBits8 payload with
    | some a =>
      let mk := if t == "UFloat" then Float32.ofBitsUFloat else Float32.ofBitsFloat
      let ps := if t == "UFloat" then Float32.parseUFloat else Float32.parseFloat
      match mk a with
      | .ok x => let o := Obs.f32 x; "ok " ++ o ++ " T:" ++ hx x.show ++ " " ++ rField ps Obs.f32 o x.show
      | _ => "err"
    | none => "bad-op"
  else if op.startsWith "cmp:" then
    let t := (op.drop 4).toString
    match args with
    | [b] =>
      match hexToStr? b with
      | none => "bad-op"
      | some pb =>
        if t == "KeyFormatVersions" || t == "type:KeyFormatVersions" then
          match KeyFormatVersions.parse payload, KeyFormatVersions.parse pb with
          | .ok x, .ok y => cmpLine (Obs.versions x) (Obs.versions y) (x.eq y) (x.cmp y) (x.hashBytes == y.hashBytes)
          | _, _ => "err"
        else if t == "Float" || t == "type:Float" then
          match Float32.parseFloat payload, Float32.parseFloat pb with
          | .ok x, .ok y => cmpLine (Obs.f32 x) (Obs.f32 y) (x.eq y) (x.cmp y) (x.hashBytesFloat == y.hashBytesFloat)
          | _, _ => "err"
        else if t == "UFloat" || t == "type:UFloat" then
          match Float32.parseUFloat payload, Float32.parseUFloat pb with
          | .ok x, .ok y => cmpLine (Obs.f32 x) (Obs.f32 y) (x.eq y) (x.cmp y) (x.hashBytesUFloat == y.hashBytesUFloat)
          | _, _ => "err"
        else if t == "DecryptionKey" || t == "type:DecryptionKey" then
          match DecryptionKey.parse payload, DecryptionKey.parse pb with
          | .ok x, .ok y => cmpLine (Obs.deckey x) (Obs.deckey y) (x == y) (x.cmp y) (x == y)
          | _, _ => "err"
        else if t == "ExtXKey" || t == "tag:ExtXKey" then
          match ExtXKey.parse payload, ExtXKey.parse pb with
          | .ok x, .ok y => cmpLine (Obs.xkey x) (Obs.xkey y) (x == y) (ExtXKey.cmp x y) (x == y)
          | _, _ => "err"
        else "unsupported"
    | _ => "bad-op"
  else match op with
  | "lines" =>
    let its := lineItems payload
    if its.any Res.isPanic then "panic" else "ok " ++ Obs.list Obs.lineItem its
  | "attrs" => "ok " ++ Obs.list (fun kv => Obs.str kv.1 ++ "=" ++ Obs.str kv.2) (attrPairs payload)
  | "unquote" => "ok " ++ Obs.str (unquote payload)
  | "quote" => "ok " ++ Obs.str (quote payload)
  | "striptag" =>
    match args with
    | [t] =>
      match hexToStr? t with
      | some tg =>
        match stripTag payload tg with
        | .ok r => "ok " ++ Obs.str r
        | .err => "err"
        | .panic => "panic"
      | none => "bad-op"
    | _ => "bad-op"
  | "media" => mediaOp (parseMedia payload) false
  | "media_fromstr" => mediaOp (parseMediaFromStr payload) false
  | "cmp_entry" =>
    match parseMedia payload, parseMediaFromStr payload, builderParse none payload with
    | .ok a, .ok b, .ok c => "ok " ++ Obs.media a ++ " E:" ++ Obs.bool (decide (a = b) && decide (a = c)) ++ " X:" ++ Obs.bool (decide (a = b) && decide (a = c))
    | .panic, _, _ => "panic"
    | _, _, _ => "err"
  | "media_builder" =>
    match args with
    | ["-"] => mediaOp (builderParse none payload) false
    | [n] =>
      match parseNat? 128 n.toList with
      | some ns => if ns / nanosPerSec < 2 ^ 64 then mediaOp (builderParse (some ns) payload) false else "bad-op"
      | none => "bad-op"
    | _ => "bad-op"
  | "rt_media" => mediaOp (parseMedia payload) true
  | "master" => masterOp (parseMaster payload) false
  | "rt_master" => masterOp (parseMaster payload) true
  | "cmpkfv" =>
    match args with
    | [b] =>
      match hexToStr? b with
      | some pb =>
        match kfvScript payload, kfvScript pb with
        | some x, some y => cmpLine (Obs.versions x) (Obs.versions y) (x.eq y) (x.cmp y) (x.hashBytes == y.hashBytes)
        | _, _ => "bad-op"
      | none => "bad-op"
    | _ => "bad-op"
  | _ => "bad-op"

def handleLine (line : String) : String :=
  match line.splitOn "\t" with
  | op :: hexp :: args =>
    match hexToStr? hexp with
    | some p =>
      -- `par`: the model is a function of the text; threads cannot matter
      if op == "par" then
        match args with
        | inner :: rest => if inner == "par" || inner == "time" then "bad-op" else handle inner p rest
        | [] => "bad-op"
      else handle op p args
    | none => "bad-op"
  | _ => "bad-op"

partial def loop (h : IO.FS.Stream) (out : IO.FS.Stream) : IO Unit := do
  let line ← h.getLine
  if line.isEmpty then return ()
  let l := if line.endsWith "\n" then (line.dropEnd 1).toString else line
  out.putStrLn (handleLine l)
  loop h out

def main : IO Unit := do
  let out ← IO.getStdout
  loop (← IO.getStdin) out
  out.flush
