import Hls.Model.Basic
import Hls.Model.Flt
import Hls.Model.Types
import Hls.Model.Tags
import Hls.Model.Line
import Hls.Model.Media
import Hls.Model.Master
import Hls.Model.Obs
