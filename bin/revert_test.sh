#!/usr/bin/env bash
# usage: revert_test.sh <commit-in-/repo> <property> : re-introduce the defect a fix: commit repaired,
# run the property's quick check, restore /repo. Development aid (mutation test of the checks).
set -u
c=$1; p=$2
git -C /repo show "$c" -- src | git -C /repo apply -R || exit 9
( cd /verif && timeout 1200 python3 bin/check "$p" --tier quick 2>&1 | grep -E "VIOLATION|KNOWN-FINDING|OK \(|violation" | cut -c1-260 | head -8 )
git -C /repo checkout -- . && ( cd /verif/harness && CARGO_TARGET_DIR=/verif/harness/target CARGO_NET_OFFLINE=true cargo build --offline >/dev/null 2>&1 )
# the run above rewrote the evidence file from a modified tree: put the committed one back
git -C /verif checkout -- evidence/$p.json 2>/dev/null; rm -f /verif/evidence/replays/$p-*.json
