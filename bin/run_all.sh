#!/usr/bin/env bash
# development aid: run every registered check at one tier, print one line each
tier=${1:-quick}
cd "$(dirname "$0")/.."
for p in C01 C02 C03 C04 C05 C06 C07 C08 C09 C10 C11 C12 C13 C14 C15 C16 C17 C18 C19 C20; do
  out=$(python3 bin/check $p --tier $tier 2>&1); rc=$?
  echo "$p rc=$rc $(echo "$out" | grep -c '^VIOLATION') violations; $(echo "$out" | tail -1)"
done
