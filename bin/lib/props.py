"""Per-property streams, gating projections and oracles (DESIGN.md §7)."""
from concurrent.futures import ThreadPoolExecutor
import itertools, json, os, random, re, time
from . import common as C
from . import gen as G


class Ctx:
    def __init__(self, prop, tier, seed):
        self.prop, self.tier, self.seed = prop, tier, seed
        self.rng = random.Random("%s/%s/%d" % (prop, tier, seed))
        self.quick = tier == "quick"
        self.features = {}

    def n(self, quick, thorough):
        if self.quick and getattr(self, "boost", False):
            return max(quick, thorough // 3)         # a translator could not read the source: search wider (bin/check)
        return quick if self.quick else thorough


class Case:
    __slots__ = ("line", "group", "meta")

    def __init__(self, line, group="", meta=None):
        self.line, self.group, self.meta = line, group, meta or {}

    @property
    def op(self):
        return self.line.split("\t", 1)[0]

    @property
    def payload(self):
        return C.unhx(self.line.split("\t")[1])


def mk(op, payload, *args, group="", meta=None):
    return Case(C.req(op, payload, *args), group, meta)


def rust_concat_literals(src):
    """the string built by each `concat!("…", "…")` of a Rust source (linear scan, no regex backtracking)"""
    esc = {"n": "\n", "r": "\r", "t": "\t", '"': '"', "\\": "\\", "0": "\0"}
    res, i = [], 0
    while True:
        i = src.find("concat!(", i)
        if i < 0:
            return res
        i += len("concat!(")
        parts, depth = [], 1
        while i < len(src) and depth > 0:
            ch = src[i]
            if ch == '"':
                j, buf = i + 1, []
                while j < len(src) and src[j] != '"':
                    if src[j] == "\\" and j + 1 < len(src):
                        buf.append(esc.get(src[j + 1], src[j + 1]))
                        j += 2
                    else:
                        buf.append(src[j]); j += 1
                parts.append("".join(buf))
                i = j + 1
            else:
                depth += ch == "("
                depth -= ch == ")"
                i += 1
        res.append("".join(parts))


def corpus_texts():
    """the repository's own fixtures (tests/, README examples are in doc tests) + /verif/corpus"""
    out = []
    for root in (os.path.join(C.REPO, "tests"), os.path.join(C.REPO, "src")):
        for d, _, files in os.walk(root):
            for f in sorted(files):
                if f.endswith(".m3u8"):
                    out.append(open(os.path.join(d, f), encoding="utf-8", errors="replace").read())
    # playlists embedded in the rfc8216 / integration tests as string literals
    for d, _, files in os.walk(os.path.join(C.REPO, "tests")):
        for f in sorted(files):
            if f.endswith(".rs"):
                src = open(os.path.join(d, f), encoding="utf-8").read()
                for lit in rust_concat_literals(src):
                    if "#EXTM3U" in lit:
                        out.append(lit)
    cdir = os.path.join(C.VERIF, "corpus")
    for f in sorted(os.listdir(cdir)) if os.path.isdir(cdir) else []:
        if f.endswith(".m3u8"):
            out.append(open(os.path.join(cdir, f), encoding="utf-8").read())
    return out


def corpus_requests():
    """minimised past disagreements / defect witnesses: run first by every check that shares the op"""
    p = os.path.join(C.VERIF, "corpus", "regressions.jsonl")
    out = []
    if os.path.exists(p):
        for l in open(p):
            l = l.strip()
            if l:
                j = json.loads(l)
                out.append(mk(j["op"], j["payload"], *j.get("args", []), group="corpus", meta={"id": j.get("id", "")}))
    return out


# ------------------------------------------------------------------------------------------
# generic engine

def shrink(case, still_fails, budget=150):
    """delta debugging on the payload: lines, then characters"""
    parts = case.line.split("\t")
    op, args = parts[0], parts[2:]
    text = C.unhx(parts[1])
    calls = [0]

    def test(t):
        calls[0] += 1
        if calls[0] > budget:
            return False
        return still_fails(C.req(op, t, *args))

    for sep in ("\n", ""):
        units = text.split(sep) if sep else list(text)
        n = 2
        while len(units) >= 2 and calls[0] <= budget:
            size = max(1, len(units) // n)
            reduced = False
            for i in range(0, len(units), size):
                cand = units[:i] + units[i + size:]
                if cand and test(sep.join(cand)):
                    units = cand
                    n = max(n - 1, 2)
                    reduced = True
                    break
            if not reduced:
                if size == 1:
                    break
                n = min(len(units), n * 2)
        text = sep.join(units)
    return C.req(op, text, *args)


def run_pair(line):
    return C.run_many(C.IMPL, [line], 1)[0], C.run_many(C.MODEL, [line], 1)[0]


def describe(line, impl=None, model=None):
    parts = line.split("\t")
    d = {"op": parts[0], "payload": C.unhx(parts[1]), "args": parts[2:], "request_line": line}
    if impl is not None:
        d["implementation"] = impl[:4000]
    if model is not None:
        d["model"] = model[:4000]
    return d


def run_streams(ctx, spec):
    t0 = time.time()
    cases = spec["build"](ctx)
    lines = [c.line for c in cases]
    impl, model = C.run_both(lines)
    C.log("ran %d requests on implementation and model (%.1fs)" % (len(lines), time.time() - t0))
    failures = []
    gate = spec["gate"]
    ndis = 0
    for c, a, b in zip(cases, impl, model):
        if b == "unsupported":
            continue
        keys = gate(c) if callable(gate) else gate
        if keys is None:
            continue
        canon = spec.get("canon")
        proj = (lambda raw, keys=keys: canon(raw, keys)) if canon else (lambda raw, keys=keys: C.project(raw, keys))
        pa, pb = proj(a), proj(b)
        if pa != pb:
            ndis += 1
            if ndis <= 3:
                def still(l, proj=proj):
                    x, y = run_pair(l)
                    return y != "unsupported" and proj(x) != proj(y)
                small = shrink(c, still)
                x, y = run_pair(small)
                f = describe(small, x, y)
                f.update({"kind": "corr", "group": c.group, "gated_on": sorted(keys),
                          "broken": "correspondence between lean/Hls/Model and /repo on stream '%s'" % c.group,
                          "what": "model and implementation disagree on %s (%s): impl=%s model=%s" % (c.op, c.group, proj(x)[:120], proj(y)[:120])})
                failures.append(f)
    if ndis:
        C.log("%d disagreements between model and implementation" % ndis)
    if "static" in spec:
        failures += spec["static"](ctx)
    # property oracle on the implementation
    ofail = spec["oracle"](ctx, cases, impl, model)
    for f in ofail:
        f["kind"] = "oracle"
        failures.append(f)
    if ofail:
        C.log("%d oracle failures on the implementation" % len(ofail))
    nontrivial = set()
    ok = err = pan = 0
    for c, a in zip(cases, impl):
        st = a.split(" ", 1)[0]
        ok += st == "ok"; err += st == "err"; pan += st == "panic"
        if spec["nontrivial"](c, a):
            nontrivial.add(c.line)
    groups = {}
    for c in cases:
        groups[c.group] = groups.get(c.group, 0) + 1
    samples = []
    seen_g = set()
    for c, a in zip(cases, impl):
        if c.group not in seen_g and len(samples) < 8:
            seen_g.add(c.group)
            samples.append({"group": c.group, "op": c.op, "payload": c.payload[:400], "args": c.line.split("\t")[2:], "implementation": a[:300]})
    cov = {
        "evaluations": len(cases),
        "distinct_nontrivial": len(nontrivial),
        "rule": spec["rule"],
        "samples": samples,
        "streams": groups,
        "implementation_results": {"ok": ok, "err": err, "panic": pan},
        "disagreements": ndis,
        "oracle_failures": len(ofail),
        "features_hit": dict(sorted(ctx.features.items())),
        "exhaustive": bool(spec.get("exhaustive", False)),
        "explanation": spec.get("explanation", ""),
    }
    cov.update(spec.get("extra_coverage", lambda ctx: {})(ctx))
    return {"failures": failures, "coverage": cov}


def run_replay(ctx, spec, path):
    j = json.load(open(path if os.path.isabs(path) else os.path.join(C.VERIF, path)))
    if "request_line" not in j:
        print("replay file has no request (it names a broken proof / tie):", j.get("broken"))
        return {"failures": [dict(j, kind="corr", what="replay of a no-input violation: " + str(j.get("broken")))],
                "coverage": {"evaluations": 0, "distinct_nontrivial": 0, "rule": "replay", "samples": []}}
    c = Case(j["request_line"], j.get("group", "replay"))
    spec2 = dict(spec)
    extra = [Case(l, "replay") for l in j.get("context_lines", [])]
    spec2["build"] = lambda ctx: [c] + extra
    r = run_streams(ctx, spec2)
    for f in r["failures"]:
        print("replayed:", f.get("what"))
    return r


def match_known(prop, failure, known):
    for k in known:
        if k["property"] != prop or not k["status"].startswith("open"):
            continue
        fn = CLASSIFIERS.get(k["classifier"])
        if fn and fn(failure):
            return k
    return None


CLASSIFIERS = {}


def classifier(name):
    def deco(fn):
        CLASSIFIERS[name] = fn
        return fn
    return deco


# ------------------------------------------------------------------------------------------
# C19

NEGZERO = re.compile(r"(?<![0-9a-f])(f|vF)80000000(?![0-9a-f])")


def content(obs):
    """observable content up to the IEEE identification of +0 and -0"""
    return NEGZERO.sub(lambda m: m.group(1) + "00000000", obs)


KFV_SCRIPTS = ["", "1", "2", "0", "1,0", "1,0,0", "2,0", "0,2", "1,2", "3,4", "1,3", "2,1", "1,2,3", "1,2,4", "255", "255,255", "0,0", "0,1",
               "1,2,3,p", "1,2,9,p", "1,2,3,t2", "3,4,5,t0", "5,p", "1,2,3,4,5,6,7,8,9", "1,2,3,4,5,6,7,8,8",
               "1,2,3,4,5,6,7,8,9,10", "0,0,x", "0,0,0,x,1", "1,2,x", "1,2,3,x,p", "9,8,7,6,5,4,3,2,1,0,x",
               "1,p,1", "7,7,7,t1", "7", "1,1", "1,1,1", "2,2", "4,3", "3,4,p,5", "1,2,3,4,5,6,7,8", "9,9,9,9,9,9,9,9,9,p"]
F32_BITS = ["00000000", "80000000", "00000001", "80000001", "007fffff", "00800000", "3f800000", "bf800000", "3f800001",
            "3f7fffff", "40000000", "c0000000", "41f00000", "41efc28f", "7f7fffff", "ff7fffff", "7f7ffffe", "3dcccccd",
            "3e4ccccd", "42c80000", "c2c80000", "33800000", "b3800000", "4b800000", "00000002"]
DK_TEXTS = ['METHOD=AES-128,URI="a"', 'METHOD=AES-128,URI="b"', 'METHOD=SAMPLE-AES,URI="a"', 'METHOD=AES-128,URI="a",KEYFORMAT="identity"',
            'METHOD=AES-128,URI="a",KEYFORMAT="f"', 'METHOD=AES-128,URI="a",KEYFORMAT="g"', 'METHOD=AES-128,URI="a",KEYFORMAT="com.apple.streamingkeydelivery"',
            'METHOD=AES-128,URI="a",IV=0x00000000000000000000000000000001', 'METHOD=AES-128,URI="a",IV=0x00000000000000000000000000000002',
            'METHOD=AES-128,URI="a",IV=0xFFFFFFFFFFFFFFFFFFFFFFFFFFFFFFFF', 'METHOD=AES-128,URI="a",KEYFORMATVERSIONS="1"',
            'METHOD=AES-128,URI="a",KEYFORMATVERSIONS="1/2"', 'METHOD=AES-128,URI="a",KEYFORMATVERSIONS="3/4"', 'METHOD=AES-128,URI="a",KEYFORMATVERSIONS="1/2/3"',
            'METHOD=AES-128,URI="é"', 'METHOD=AES-128,URI="z"', 'METHOD=AES-128,URI="ab"', 'URI="a",METHOD=AES-128', 'METHOD=AES-128,URI="a",KEYFORMAT="f",KEYFORMATVERSIONS="2"',
            'METHOD=SAMPLE-AES,URI="a",KEYFORMAT="urn:uuid:edef8ba9-79d6-4ace-a3c8-27dcd51d21ed"', 'METHOD=SAMPLE-AES,URI="a",KEYFORMAT="com.microsoft.playready"']


_BR = ["5", "5@0", "5@1", "5@5", "6", "6@0", "0", "0@0", "0@5", "4@1", "1@4"]
_MEDIA_BASE = 'TYPE=AUDIO,GROUP-ID="g",NAME="n"'
_DR = '#EXT-X-DATERANGE:ID="a"'
NEAR_FAMILIES = {
    "type:ByteRange": _BR,
    "tag:ExtXByteRange": ["#EXT-X-BYTERANGE:" + x for x in _BR],
    "tag:ExtXMap": ['#EXT-X-MAP:URI="u"', '#EXT-X-MAP:URI="v"', '#EXT-X-MAP:URI=""'] + ['#EXT-X-MAP:URI="u",BYTERANGE="%s"' % x for x in _BR[:8]],
    "tag:ExtInf": ["#EXTINF:1,", "#EXTINF:1.0,", "#EXTINF:1,t", "#EXTINF:1,u", "#EXTINF:2,", "#EXTINF:1.000000001,", "#EXTINF:0,", "#EXTINF:0,t",
                   "#EXTINF:0.999999999,", "#EXTINF:1, ", "#EXTINF:1,1"],
    "type:Resolution": ["1x2", "2x1", "1x1", "2x2", "10x2", "1x20", "12x0", "1x2 "],
    "type:UFloat": ["0", "-0", "0.0", "-0.0", "-0.000", "+0", "1", "1.0", "1e0", "-1", "0.5", ".5", "1e-46", "-1e-46", "16777217", "16777216"],
    "type:Float": ["0", "-0", "0.0", "-0.0", "+0", "1", "1.0", "1e0", "-1", "-1.0", "0.5", "-0.5", "1e-46", "-1e-46", "16777217", "16777216"],
    "type:Codecs": ["a", "a,b", "b,a", "a,a", "ab", "b", "a,b,c", "a,bc"],
    "type:Channels": ["6", "2", "16", "0", "1"],
    "type:ClosedCaptions": ["NONE", '"NONE"', '"a"', '"b"', '""'],
    "type:KeyFormat": ['"identity"', '"Identity"', '"x"', '"y"', '""', '"com.apple.streamingkeydelivery"', '"com.microsoft.playready"',
                       '"urn:uuid:edef8ba9-79d6-4ace-a3c8-27dcd51d21ed"', '"URN:UUID:EDEF8BA9-79D6-4ACE-A3C8-27DCD51D21ED"'],
    "type:InitializationVector": ["0x" + "00" * 16, "0x" + "00" * 15 + "01", "0x01" + "00" * 15, "0x" + "ff" * 16, "0X" + "FF" * 16, "0x" + "0f" * 16],
    "type:HdcpLevel": ["TYPE-0", "NONE"], "type:EncryptionMethod": ["AES-128", "SAMPLE-AES"],
    "type:MediaType": ["AUDIO", "VIDEO", "SUBTITLES", "CLOSED-CAPTIONS"], "type:PlaylistType": ["#EXT-X-PLAYLIST-TYPE:VOD", "#EXT-X-PLAYLIST-TYPE:EVENT"],
    "type:InStreamId": ["CC1", "CC2", "CC4", "SERVICE1", "SERVICE2", "SERVICE10", "SERVICE63"],
    "type:ProtocolVersion": ["1", "2", "3", "4", "5", "6", "7"],
    "type:StreamData": ["BANDWIDTH=1", "BANDWIDTH=2", "BANDWIDTH=0", "BANDWIDTH=1,AVERAGE-BANDWIDTH=0", "BANDWIDTH=1,AVERAGE-BANDWIDTH=1", 'BANDWIDTH=1,CODECS="a"',
                        'BANDWIDTH=1,CODECS=""', "BANDWIDTH=1,RESOLUTION=1x2", "BANDWIDTH=1,RESOLUTION=2x1", "BANDWIDTH=1,HDCP-LEVEL=NONE", "BANDWIDTH=1,HDCP-LEVEL=TYPE-0",
                        'BANDWIDTH=1,VIDEO="v"', 'BANDWIDTH=1,VIDEO=""', "BANDWIDTH=0,AVERAGE-BANDWIDTH=1"],
    "tag:ExtXMedia": ["#EXT-X-MEDIA:" + x for x in [
        _MEDIA_BASE, _MEDIA_BASE + ",DEFAULT=YES,AUTOSELECT=YES", _MEDIA_BASE + ",DEFAULT=NO", _MEDIA_BASE + ",AUTOSELECT=YES", _MEDIA_BASE + ",FORCED=NO",
        _MEDIA_BASE + ',LANGUAGE="en"', _MEDIA_BASE + ',LANGUAGE=""', _MEDIA_BASE + ',ASSOC-LANGUAGE="en"', _MEDIA_BASE + ',ASSOC-LANGUAGE=""',
        _MEDIA_BASE + ',CHARACTERISTICS="en"', _MEDIA_BASE + ',CHANNELS="2"', _MEDIA_BASE + ',CHANNELS="6"', _MEDIA_BASE + ',URI="u"', _MEDIA_BASE + ',URI=""',
        'TYPE=VIDEO,GROUP-ID="g",NAME="n"', 'TYPE=AUDIO,GROUP-ID="n",NAME="g"', 'TYPE=AUDIO,GROUP-ID="g",NAME="m"',
        'TYPE=CLOSED-CAPTIONS,GROUP-ID="g",NAME="n",INSTREAM-ID="CC1"', 'TYPE=CLOSED-CAPTIONS,GROUP-ID="g",NAME="n",INSTREAM-ID="CC2"',
        'TYPE=SUBTITLES,GROUP-ID="g",NAME="n",URI="u"', 'TYPE=SUBTITLES,GROUP-ID="g",NAME="n",URI="u",FORCED=YES']],
    "tag:ExtXDateRange": [_DR, '#EXT-X-DATERANGE:ID="b"', _DR + ',CLASS="c"', _DR + ',CLASS=""', _DR + ',START-DATE="2010-02-19T14:54:23.031+08:00"',
                          _DR + ',END-DATE="2010-02-19T14:54:23.031+08:00"', _DR + ",DURATION=1", _DR + ",DURATION=0", _DR + ",PLANNED-DURATION=1",
                          _DR + ",PLANNED-DURATION=0", _DR + ",DURATION=1,PLANNED-DURATION=1", _DR + ",DURATION=1,PLANNED-DURATION=2",
                          _DR + ",DURATION=2,PLANNED-DURATION=1", _DR + ",SCTE35-CMD=0xAB", _DR + ",SCTE35-OUT=0xAB", _DR + ",SCTE35-IN=0xAB",
                          _DR + ',X-A="s"', _DR + ",X-A=0xAB", _DR + ",X-A=1", _DR + ',X-A="1"', _DR + ',X-B="s"', _DR + ',X-A="s",X-B="s"',
                          _DR + ',CLASS="c",END-ON-NEXT=YES', _DR + ',CLASS="c",END-ON-NEXT=NO'],
    "tag:ExtXSessionData": ["#EXT-X-SESSION-DATA:" + x for x in ['DATA-ID="d",VALUE="v"', 'DATA-ID="d",VALUE="w"', 'DATA-ID="d",URI="v"', 'DATA-ID="d",VALUE=""',
                            'DATA-ID="d",URI=""', 'DATA-ID="d",VALUE="v",LANGUAGE="en"', 'DATA-ID="d",VALUE="v",LANGUAGE=""', 'DATA-ID="e",VALUE="v"',
                            'DATA-ID="v",VALUE="d"', 'DATA-ID="d",URI="v",LANGUAGE="en"']],
    "tag:ExtXSessionKey": ['#EXT-X-SESSION-KEY:METHOD=AES-128,URI="k"', '#EXT-X-SESSION-KEY:METHOD=SAMPLE-AES,URI="k"', '#EXT-X-SESSION-KEY:METHOD=AES-128,URI="l"',
                           '#EXT-X-SESSION-KEY:METHOD=AES-128,URI="k",IV=0x' + "00" * 16, '#EXT-X-SESSION-KEY:METHOD=AES-128,URI="k",KEYFORMAT="identity"',
                           '#EXT-X-SESSION-KEY:METHOD=AES-128,URI="k",KEYFORMATVERSIONS="1"', '#EXT-X-SESSION-KEY:METHOD=AES-128,URI="k",KEYFORMATVERSIONS="2"',
                           '#EXT-X-SESSION-KEY:METHOD=AES-128,URI="k",KEYFORMAT="x"'],
    "tag:ExtXProgramDateTime": ["#EXT-X-PROGRAM-DATE-TIME:2010-02-19T14:54:23.031+08:00", "#EXT-X-PROGRAM-DATE-TIME:2010-02-19T14:54:23.032+08:00",
                                "#EXT-X-PROGRAM-DATE-TIME:2010-02-19T06:54:23.031Z", "#EXT-X-PROGRAM-DATE-TIME:x"],
    "tag:ExtXVersion": ["#EXT-X-VERSION:%d" % i for i in range(1, 8)],
}


def _near_media():
    head = "#EXTM3U\n#EXT-X-TARGETDURATION:10\n"
    first = "#EXT-X-BYTERANGE:100@0\n#EXTINF:1,\na.ts\n"
    out = []
    for second in ["#EXT-X-BYTERANGE:100\n", "#EXT-X-BYTERANGE:100@100\n", "#EXT-X-BYTERANGE:100@0\n", "#EXT-X-BYTERANGE:50@100\n", "#EXT-X-BYTERANGE:0@100\n", "",
                   "#EXT-X-DISCONTINUITY\n", '#EXT-X-MAP:URI="i"\n', '#EXT-X-MAP:URI="i",BYTERANGE="5@0"\n', '#EXT-X-MAP:URI="i",BYTERANGE="5"\n',
                   "#EXT-X-PROGRAM-DATE-TIME:2010-02-19T14:54:23.031+08:00\n", '#EXT-X-DATERANGE:ID="a"\n', '#EXT-X-KEY:METHOD=AES-128,URI="k"\n',
                   '#EXT-X-KEY:METHOD=AES-128,URI="k",IV=0x' + "00" * 15 + "01\n", "#EXT-X-KEY:METHOD=NONE\n"]:
        out.append(head + first + second + "#EXTINF:1,\na.ts\n")
    out.append(head + first + "#EXTINF:1,t\na.ts\n")
    out.append(head + first + "#EXTINF:1.5,\na.ts\n")
    out.append(head + first + "#EXTINF:1,\nb.ts\n")
    out.append(head + first)
    out.append(head + "#EXT-X-MEDIA-SEQUENCE:1\n" + first)
    out.append(head + "#EXT-X-MEDIA-SEQUENCE:0\n" + first)
    out.append(head + "#EXT-X-DISCONTINUITY-SEQUENCE:1\n" + first)
    out.append(head + "#EXT-X-PLAYLIST-TYPE:VOD\n" + first)
    out.append(head + "#EXT-X-PLAYLIST-TYPE:EVENT\n" + first)
    out.append(head + "#EXT-X-I-FRAMES-ONLY\n" + first)
    out.append(head + "#EXT-X-INDEPENDENT-SEGMENTS\n" + first)
    out.append(head + "#EXT-X-START:TIME-OFFSET=0\n" + first)
    out.append(head + first + "#EXT-X-ENDLIST\n")
    out.append(head + "#EXT-X-FOO\n" + first)
    out.append("#EXTM3U\n#EXT-X-TARGETDURATION:11\n" + first)
    # every list-valued field with the same elements in another order or another multiplicity: unknown tags, segments, the keys of a
    # segment (two formats declared in both orders give the same set: THAT pair is equal)
    A, B = "#EXT-X-FOO:1\n", "#EXT-X-BAR\n"
    for u in (A + B, B + A, A + B + A, A + B + B, A + A + B, A, B, A + A):
        out.append(head + u + first)
    s1, s2 = "#EXTINF:1,\na.ts\n", "#EXTINF:1,\nb.ts\n"
    for sg in (s1 + s2, s2 + s1, s1 + s2 + s1, s1 + s2 + s2, s1 + s1 + s2):
        out.append(head + sg)
    k1, k2 = '#EXT-X-KEY:METHOD=AES-128,URI="k",KEYFORMAT="f"\n', '#EXT-X-KEY:METHOD=AES-128,URI="l",KEYFORMAT="g"\n'
    for ks in (k1 + k2, k2 + k1, k1, k2, k1 + k2 + k1):
        out.append(head + ks + s1)
    return out


def _near_master():
    m = '#EXT-X-MEDIA:TYPE=AUDIO,GROUP-ID="g",NAME="n"\n'
    v = '#EXT-X-STREAM-INF:BANDWIDTH=1,AUDIO="g"\nu\n'
    h = "#EXTM3U\n"
    return [h + m + v, h + m + v + v, h + m + '#EXT-X-STREAM-INF:BANDWIDTH=1\nu\n', h + m + '#EXT-X-STREAM-INF:BANDWIDTH=1,AUDIO="g"\nw\n',
            h + m + m.replace('"n"', '"m"') + v, h + m + v + "#EXT-X-INDEPENDENT-SEGMENTS\n", h + m + v + "#EXT-X-START:TIME-OFFSET=0\n",
            h + m + v + '#EXT-X-SESSION-DATA:DATA-ID="d",VALUE="v"\n', h + m + v + '#EXT-X-SESSION-KEY:METHOD=AES-128,URI="k"\n',
            h + m + v + '#EXT-X-I-FRAME-STREAM-INF:BANDWIDTH=1,URI="u"\n', h + m + v + "#EXT-X-FOO\n", h + m, h + v.replace(',AUDIO="g"', ""), h] + _near_master_lists()


def _near_master_lists():
    """every list-valued field of a master playlist with the same elements in another order / multiplicity"""
    h = "#EXTM3U\n"
    v = '#EXT-X-STREAM-INF:BANDWIDTH=1\nu\n'
    out = []
    pairs = [('#EXT-X-MEDIA:TYPE=AUDIO,GROUP-ID="g",NAME="a"\n', '#EXT-X-MEDIA:TYPE=AUDIO,GROUP-ID="g",NAME="b"\n'),
             ('#EXT-X-STREAM-INF:BANDWIDTH=2\nx\n', '#EXT-X-STREAM-INF:BANDWIDTH=3\ny\n'),
             ('#EXT-X-SESSION-DATA:DATA-ID="d",VALUE="1"\n', '#EXT-X-SESSION-DATA:DATA-ID="e",VALUE="2"\n'),
             ('#EXT-X-SESSION-KEY:METHOD=AES-128,URI="k"\n', '#EXT-X-SESSION-KEY:METHOD=AES-128,URI="l"\n'),
             ("#EXT-X-FOO:1\n", "#EXT-X-BAR\n")]
    for a, b in pairs:
        for t in (a + b, b + a, a, b):
            out.append(h + v + t)
    out += [h + v + "#EXT-X-FOO:1\n#EXT-X-BAR\n#EXT-X-FOO:1\n", h + v + "#EXT-X-FOO:1\n#EXT-X-BAR\n#EXT-X-BAR\n"]
    return out


def _near_built_media():
    hx = lambda t: t.encode().hex()
    seg = lambda uri, extra="": "dur=1000000000 uri=%s%s" % (hx(uri), extra)
    td = "td 10000000000"
    key = " key=aes:%s:-:-:-" % hx("k")
    keyiv = " key=aes:%s:%s:-:-" % (hx("k"), "0" * 31 + "1")
    return ["\n".join(x) for x in [
        [td, "push " + seg("a"), "push " + seg("b")],
        [td, "push " + seg("a"), "push " + seg("b", " num=1")],
        [td, "push " + seg("a", " num=0"), "push " + seg("b")],
        [td, "push " + seg("a", " num=0"), "push " + seg("b", " num=1")],
        [td, "push " + seg("b", " num=1"), "push " + seg("a", " num=0")],
        [td, "segs " + seg("a") + " | " + seg("b")],
        [td, "ms 0", "push " + seg("a"), "push " + seg("b")],
        [td, "ms 5", "push " + seg("a"), "push " + seg("b")],
        [td, "ms 5", "push " + seg("a", " num=5"), "push " + seg("b", " num=6")],
        [td, "ms 5", "push " + seg("a"), "push " + seg("b", " num=6")],
        [td, "push " + seg("a")],
        [td, "push " + seg("a", " num=0")],
        [td, "push " + seg("a", key)],
        [td, "push " + seg("a", key + " num=0")],
        [td, "push " + seg("a", keyiv)],
        [td, "push " + seg("a", " key=none")],
        [td, "push " + seg("a", " disc=1")],
        [td, "push " + seg("a", " title=" + hx("t"))],
        [td, "push " + seg("a", " br=5@0")],
        [td, "push " + seg("a", " br=5@0"), "push " + seg("a", " br=5")],
        [td, "push " + seg("a", " br=5@0"), "push " + seg("a", " br=5@5")],
        [td, "push " + seg("a", " map=" + hx("i"))],
        [td, "push " + seg("a", " map=" + hx("i") + ":5@0")],
        [td, "end 1", "push " + seg("a")], [td, "end 0", "push " + seg("a")], [td, "ifo 1", "push " + seg("a")], [td, "ifo 0", "push " + seg("a")],
        [td, "ind 1", "push " + seg("a")], [td, "ds 0", "push " + seg("a")], [td, "ds 1", "push " + seg("a")], [td, "pt VOD", "push " + seg("a")],
        [td, "unk " + hx("#EXT-X-FOO"), "push " + seg("a")], [td, "unk", "push " + seg("a")], [td, "ex 0", "push " + seg("a")],
        [td, "ex 1000000000", "push " + seg("a")], ["td 11000000000", "push " + seg("a")],
        # durations a nanosecond / half a second apart (the text form of some of them is whole seconds: the VALUES still differ)
        ["td 10000000001", "push " + seg("a")], ["td 10500000000", "push " + seg("a")], ["td 10999999999", "push " + seg("a")],
        [td, "ex 1", "push " + seg("a")], [td, "ex 999999999", "push " + seg("a")], [td, "ex 1000000001", "push " + seg("a")],
        [td, "push dur=1000000001 uri=" + hx("a")], [td, "push dur=999999999 uri=" + hx("a")], [td, "push dur=1500000000 uri=" + hx("a")],
        [td, "push dur=1000000000 uri=" + hx("a"), "push dur=1000000001 uri=" + hx("b")],
        # list-valued fields: the same elements in another order / multiplicity
        [td, "unk " + hx("#EXT-X-FOO") + " " + hx("#EXT-X-BAR"), "push " + seg("a")], [td, "unk " + hx("#EXT-X-BAR") + " " + hx("#EXT-X-FOO"), "push " + seg("a")],
        [td, "unk " + hx("#EXT-X-FOO") + " " + hx("#EXT-X-BAR") + " " + hx("#EXT-X-FOO"), "push " + seg("a")],
        [td, "unk " + hx("#EXT-X-FOO") + " " + hx("#EXT-X-BAR") + " " + hx("#EXT-X-BAR"), "push " + seg("a")],
        [td, "push " + seg("b"), "push " + seg("a")], [td, "push " + seg("a"), "push " + seg("b"), "push " + seg("a")], [td, "push " + seg("a"), "push " + seg("b"), "push " + seg("b")],
    ]]


NEAR_MEDIA = _near_media()
NEAR_BUILT_MEDIA = _near_built_media()
NEAR_MASTER = _near_master()


def c19_build(ctx):
    cases = []
    for a, b in itertools.product(KFV_SCRIPTS, repeat=2):
        cases.append(mk("cmpkfv", a, C.hx(b), group="kfv", meta={"a": a, "b": b}))
    for a, b in itertools.product(F32_BITS, repeat=2):
        cases.append(mk("cmpf32:Float", a, C.hx(b), group="Float", meta={"a": a, "b": b}))
    # the negative patterns too: UFloat refuses them (err, skipped) - unless a change lets one in, -0.0 for instance
    for a, b in itertools.product(F32_BITS, repeat=2):
        cases.append(mk("cmpf32:UFloat", a, C.hx(b), group="UFloat", meta={"a": a, "b": b}))
    for a, b in itertools.product(DK_TEXTS, repeat=2):
        cases.append(mk("cmp:DecryptionKey", a, C.hx(b), group="DecryptionKey", meta={"a": a, "b": b}))
    xk = ["#EXT-X-KEY:METHOD=NONE"] + ["#EXT-X-KEY:" + t for t in DK_TEXTS[:12]]
    for a, b in itertools.product(xk, repeat=2):
        cases.append(mk("cmp:ExtXKey", a, C.hx(b), group="ExtXKey", meta={"a": a, "b": b}))
    kfvt = ['"1"', '"1/2"', '"3/4"', '"1/2/3"', '"2"', '"255"', '"1/1"', '"0"', '"0/0"']
    for a, b in itertools.product(kfvt, repeat=2):
        cases.append(mk("cmp:KeyFormatVersions", a, C.hx(b), group="KeyFormatVersions-text", meta={"a": a, "b": b}))
    # composites (implementation-side oracle; derived impls inherit any incoherence of their fields)
    rng = ctx.rng
    n = ctx.n(9, 22)
    medias = [G.gen_media(rng, max_segments=3, features=ctx.features)[0] for _ in range(n)]
    medias += [medias[0].replace("\n", "\r\n"), medias[1] + "\n# trailing comment\n"]
    for a, b in itertools.product(medias, repeat=2):
        cases.append(mk("cmp:media", a, C.hx(b), group="media", meta={"a": a, "b": b}))
    masters = [G.gen_master(rng, max_tags=3, features=ctx.features)[0] for _ in range(n)]
    masters += [masters[0].replace("\n", "\r\n")]
    for a, b in itertools.product(masters, repeat=2):
        cases.append(mk("cmp:master", a, C.hx(b), group="master", meta={"a": a, "b": b}))
    starts = ["#EXT-X-START:TIME-OFFSET=" + v for v in ["0", "-0", "1.5", "-1.5", "0.0", "1.5,PRECISE=YES", "1.5,PRECISE=NO", "100"]]
    for a, b in itertools.product(starts, repeat=2):
        cases.append(mk("cmp:tag:ExtXStart", a, C.hx(b), group="ExtXStart", meta={"a": a, "b": b}))
    vals = ["1.5", "-0", "0", '"x"', '"y"', "0xAB", "0xab", "0x", '"1.5"', "inf", "2"]
    for a, b in itertools.product(vals, repeat=2):
        cases.append(mk("cmp:type:Value", a, C.hx(b), group="Value", meta={"a": a, "b": b}))
    vs = ['#EXT-X-STREAM-INF:BANDWIDTH=1\nu', '#EXT-X-STREAM-INF:BANDWIDTH=1,FRAME-RATE=0\nu', '#EXT-X-STREAM-INF:BANDWIDTH=1,FRAME-RATE=25\nu',
          '#EXT-X-STREAM-INF:BANDWIDTH=2\nu', '#EXT-X-STREAM-INF:BANDWIDTH=1\nv', '#EXT-X-I-FRAME-STREAM-INF:BANDWIDTH=1,URI="u"',
          '#EXT-X-STREAM-INF:BANDWIDTH=1,CLOSED-CAPTIONS=NONE\nu', '#EXT-X-STREAM-INF:BANDWIDTH=1,CLOSED-CAPTIONS="NONE"\nu', '#EXT-X-STREAM-INF:BANDWIDTH=1,CODECS="a,b"\nu']
    for a, b in itertools.product(vs, repeat=2):
        cases.append(mk("cmp:tag:VariantStream", a, C.hx(b), group="VariantStream", meta={"a": a, "b": b}))
    # families of values one field apart (an absent field next to its zero / default / empty value, neighbouring values,
    # the same content in another field): a hand-written comparison that folds two of them together shows up here
    for kind, texts in NEAR_FAMILIES.items():
        for a, b in itertools.product(texts, repeat=2):
            cases.append(mk("cmp:" + kind, a, C.hx(b), group="near:" + kind.split(":")[1], meta={"a": a, "b": b}))
    for a, b in itertools.product(NEAR_MEDIA, repeat=2):
        cases.append(mk("cmp:media", a, C.hx(b), group="near:media", meta={"a": a, "b": b}))
    for a, b in itertools.product(NEAR_MASTER, repeat=2):
        cases.append(mk("cmp:master", a, C.hx(b), group="near:master", meta={"a": a, "b": b}))
    # values only the builders reach: explicit segment numbers (equal to / different from the implicit ones), setters
    # called with the default value, the two ways of handing over segments
    for a, b in itertools.product(NEAR_BUILT_MEDIA, repeat=2):
        cases.append(mk("cmp_build_media", a, C.hx(b), group="near:built-media", meta={"a": a, "b": b}))
    # a playlist with an empty slot in its public `segments` (a segment taken out after building) against the same segments moved
    # together: equal only if the segments sit in the same slots
    hx = lambda t: t.encode().hex()
    for n in range(1, 6):
        script = "\n".join(["td 10000000000"] + ["push dur=1000000000 uri=" + hx("s%d" % j) for j in range(n)])
        for i in range(n + 1):
            cases.append(mk("cmp_holes", script, str(i), group="holes", meta={"holes": True}))
    return cases


def c19_gate(case):
    if case.op == "cmp_build_media":
        return {"status", "obs", "extra", "E", "X"}        # the model's = is structural; it has no order / hash of playlists
    return {"status", "obs", "extra", "E", "C", "H"}


def c19_oracle(ctx, cases, impl, model):
    """the six laws on the implementation's own answers, per group, over all pairs and triples"""
    fails = []
    by_group = {}
    def segments_of(o):
        """the segment list inside the observation of a media playlist (its last field)"""
        depth = 0
        for i in range(len(o) - 2, -1, -1):
            if o[i] == "]": depth += 1
            elif o[i] == "[":
                depth -= 1
                if depth == 0:
                    return o[i:-1]
        return o
    for c, a in zip(cases, impl):
        if c.meta.get("holes"):
            r = C.Resp(a)
            if r.status == "panic":
                fails.append(dict(describe(c.line, a), what="comparison panicked in group holes"))
            elif r.status == "ok" and r.get("E") == "1" and r.get("X") != "1":
                fails.append(dict(describe(c.line, a), what="holes: no-false-equality: two playlists whose segments sit in different slots of `segments` compare equal", law="no-false-equality"))
            continue
        by_group.setdefault(c.group, []).append((c, a, False))
        if c.op == "cmp_build_media":     # the same pairs once more, as lists of segments (X/Y/Z = their ==, cmp, hash)
            by_group.setdefault(c.group + ":segments", []).append((c, a, True))
    SW = {"lt": "gt", "gt": "lt", "eq": "eq", "-": "-"}
    for g, items in by_group.items():
        M = {}
        obs = {}
        for c, a, as_segments in items:
            r = C.Resp(a)
            if as_segments and r.status == "ok":
                r.fields["E"], r.fields["C"], r.fields["H"] = r.get("X"), r.get("Y"), r.get("Z")
                r.obs = segments_of(r.obs)
                r.extra = [segments_of(x) for x in r.extra[:1]]
            ka = c.meta.get("a", c.payload)
            kb = c.meta.get("b") if "b" in c.meta else C.unhx(c.line.split("\t")[2])
            if r.status == "panic":
                fails.append(dict(describe(c.line, a), what="comparison panicked in group %s" % g))
                continue
            if r.status != "ok":
                continue
            M[(ka, kb)] = (r.get("E"), r.get("C"), r.get("H"), c, a)
            obs[ka] = r.obs
            if r.extra:
                obs[kb] = r.extra[0]

        def bad(msg, *keys):
            c, a = M[keys[0]][3], M[keys[0]][4]
            d = describe(c.line, a)
            d["context_lines"] = [M[k][3].line for k in keys[1:]]
            d["what"] = "%s: %s" % (g, msg)
            d["law"] = msg.split(":")[0]
            fails.append(d)
        vals = sorted(obs)
        for x in vals:
            if (x, x) in M and M[(x, x)][0] != "1":
                bad("reflexivity: a value is not equal to itself", (x, x))
        for (x, y), (E, Cm, H, _, _) in M.items():
            same = content(obs[x]) == content(obs[y])
            if E == "1" and not same:
                bad("no-false-equality: values with different observable content compare equal", (x, y))
            if E == "0" and same:
                bad("equal-content: values with identical observable content compare unequal", (x, y))
            if Cm != "-" and ((Cm == "eq") != (E == "1")):
                bad("cmp-vs-eq: cmp says %s but == says %s" % (Cm, E), (x, y))
            if H != "-" and E == "1" and H != "1":
                bad("hash: equal values hash differently", (x, y))
            if (y, x) in M:
                E2, C2 = M[(y, x)][0], M[(y, x)][1]
                if E2 != E:
                    bad("symmetry: a==b is %s but b==a is %s" % (E, E2), (x, y), (y, x))
                if Cm != "-" and SW[Cm] != C2:
                    bad("antisymmetry: cmp(a,b)=%s but cmp(b,a)=%s" % (Cm, C2), (x, y), (y, x))
        # transitivity
        n_tr = 0
        for x in vals:
            for y in vals:
                if (x, y) not in M or M[(x, y)][1] not in ("lt", "eq"):
                    continue
                for z in vals:
                    if (y, z) not in M or (x, z) not in M:
                        continue
                    cxy, cyz, cxz = M[(x, y)][1], M[(y, z)][1], M[(x, z)][1]
                    n_tr += 1
                    if cxy == "lt" and cyz in ("lt", "eq") and cxz != "lt":
                        bad("transitivity: a<b, b<=c but cmp(a,c)=%s" % cxz, (x, z), (x, y), (y, z))
                    if cxy == "eq" and cyz == "lt" and cxz != "lt":
                        bad("transitivity: a=b, b<c but cmp(a,c)=%s" % cxz, (x, z), (x, y), (y, z))
                    if M[(x, y)][0] == "1" and M[(y, z)][0] == "1" and M[(x, z)][0] != "1":
                        bad("transitivity: a==b, b==c but a!=c", (x, z), (x, y), (y, z))
        ctx.features["triples:" + g] = n_tr
    # one failure per (group, law) is enough
    seen, out = set(), []
    for f in fails:
        k = (f["what"].split(":")[0], f.get("law"))
        if k not in seen:
            seen.add(k)
            out.append(f)
    return out


def c19_nontrivial(case, a):
    r = C.Resp(a)
    return r.status == "ok" and case.meta.get("a") != case.meta.get("b", 1)


PROPS = {}
PROPS["C19"] = {
    "build": c19_build, "gate": c19_gate, "oracle": c19_oracle, "nontrivial": c19_nontrivial,
    "rule": "all ordered pairs (and all triples, for transitivity) over fixed carriers: KeyFormatVersions built by push/pop/truncate/FromIterator scripts (truncated buffers with stale content, equal length/different content), Float/UFloat bit patterns (±0, subnormals, adjacent values, extremes), decryption keys and EXT-X-KEY texts, client attribute values, EXT-X-START, variant streams, generated media and master playlists; near-pair families for every type and tag with a text form (absent / zero / default / empty value, neighbours, the same content in another field), media / master playlists one tag apart, 37 builder scripts one call apart (cmp_build_media: playlists and their segment lists), negative patterns for UFloat; non-trivial = accepted pair of two different carrier elements",
    "exhaustive": False,
    "explanation": "theorems: kfv_laws, f32_laws (hand-written impls), decryptionKey_cmp_laws / extXKey_cmp_laws (derived order the key set relies on) on the model; the model's ==/cmp/hash outcomes are compared with the implementation's on every pair (gate), and the six laws are evaluated on the implementation's own answers for all types including the derived ones",
    "assumptions": ["derived PartialEq/Ord/Hash are structural/lexicographic/field-wise (rustc)", "hash equality is observed through DefaultHasher (SipHash) - collisions of unequal inputs are ignored", "+0 == -0 for Float is IEEE equality by design; content is compared up to that identification"],
}


# ------------------------------------------------------------------------------------------
# C13

MT = ["AUDIO", "VIDEO", "SUBTITLES", "CLOSED-CAPTIONS"]


def c13_render(rng, cfg):
    lines = []
    for (t, g) in cfg["media"]:
        l = '#EXT-X-MEDIA:TYPE=%s,GROUP-ID="%s",NAME="n%d"' % (t, g, len(lines))
        if t == "SUBTITLES":
            l += ',URI="s.m3u8"'
        if t == "CLOSED-CAPTIONS":
            l += ',INSTREAM-ID="CC1"'
        lines.append([l])
    for i, v in enumerate(cfg["variants"]):
        if v.get("iframe"):
            l = '#EXT-X-I-FRAME-STREAM-INF:BANDWIDTH=1,URI="i%d"' % i
            if v.get("video"):
                l += ',VIDEO="%s"' % v["video"]
            lines.append([l])
        else:
            l = "#EXT-X-STREAM-INF:BANDWIDTH=%d" % (i + 1)
            for k, a in (("audio", "AUDIO"), ("video", "VIDEO"), ("subs", "SUBTITLES")):
                if v.get(k):
                    l += ',%s="%s"' % (a, v[k])
            if v.get("cc") == "NONE":
                l += ",CLOSED-CAPTIONS=NONE"
            elif v.get("cc"):
                l += ',CLOSED-CAPTIONS="%s"' % v["cc"]
            lines.append([l, "v%d.m3u8" % i])
    for k, (did, lang) in enumerate(cfg.get("sd", [])):
        # the payload is not part of the identity of a session-data tag: give every tag its own (VALUE or URI)
        l = '#EXT-X-SESSION-DATA:DATA-ID="%s",%s' % (did, ('VALUE="v%d"' % k) if k % 2 == 0 else ('URI="u%d"' % k))
        if lang:
            l += ',LANGUAGE="%s"' % lang
        lines.append([l])
    order = cfg.get("order")
    if order == "shuffle":
        rng.shuffle(lines)
    elif order == "reverse":
        lines.reverse()
    return "#EXTM3U\n" + "\n".join(x for it in lines for x in it) + "\n"


def c13_expect(cfg):
    """the property's rule, written from its text (independent of model and implementation)"""
    defined = set(cfg["media"])
    has_none = has_group = False
    for v in cfg["variants"]:
        if v.get("iframe"):
            if v.get("video") and ("VIDEO", v["video"]) not in defined:
                return False
            continue
        for k, t in (("audio", "AUDIO"), ("video", "VIDEO"), ("subs", "SUBTITLES")):
            if v.get(k) and (t, v[k]) not in defined:
                return False
        cc = v.get("cc")
        if cc == "NONE":
            has_none = True
        elif cc:
            has_group = True
            name = cc[1] if isinstance(cc, tuple) else cc
            if ("CLOSED-CAPTIONS", name) not in defined:
                return False
    if has_none and has_group:
        return False
    sd = cfg.get("sd", [])
    return len(set(sd)) == len(sd)


OBS_MT = {"audio": "AUDIO", "video": "VIDEO", "subs": "SUBTITLES", "cc": "CLOSED-CAPTIONS"}


def split_top(s, sep=","):
    out, depth, cur = [], 0, ""
    for ch in s:
        if ch in "{[":
            depth += 1
        elif ch in "}]":
            depth -= 1
        if ch == sep and depth == 0:
            out.append(cur); cur = ""
        else:
            cur += ch
    if cur or out:
        out.append(cur)
    return out


def parse_master_obs(obs):
    """P{indep;start;[xmedia];[variant];[sd];[keys];[unknown]} -> (media list, variants list)"""
    inner = obs[2:-1]
    f = split_top(inner, ";")
    media = []
    for m in split_top(f[2][1:-1]):
        if not m:
            continue
        mf = split_top(m[1:-1], ";")
        media.append((OBS_MT[mf[0]], C.unhx(mf[2][1:])))
    variants = []
    for v in split_top(f[3][1:-1]):
        if not v:
            continue
        vf = split_top(v[2:-1], ";")
        un = lambda x: None if x == "-" else C.unhx(x[1:])
        if v[0] == "I":
            sd = split_top(vf[1][1:-1], ";")
            variants.append({"iframe": True, "video": un(sd[5])})
        else:
            sd = split_top(vf[5][1:-1], ";")
            cc = vf[4]
            ccv = None if cc == "-" else ("NONE" if cc == "ccN" else ("G", C.unhx(cc[4:])))
            variants.append({"audio": un(vf[2]), "subs": un(vf[3]), "cc": ccv, "video": un(sd[5])})
    return media, variants


def expected_assoc(media, v):
    out = []
    for i, (t, g) in enumerate(media):
        if v.get("iframe"):
            hit = t == "VIDEO" and v.get("video") == g
        else:
            hit = ((t == "AUDIO" and v.get("audio") == g) or (t == "VIDEO" and v.get("video") == g)
                   or (t == "SUBTITLES" and v.get("subs") == g)
                   or (t == "CLOSED-CAPTIONS" and isinstance(v.get("cc"), tuple) and v["cc"][1] == g))
        if hit:
            out.append(i)
    return out


def c13_build(ctx):
    rng = ctx.rng
    cases = []
    for t in corpus_texts():
        if "#EXT-X-STREAM-INF" in t or "#EXT-X-MEDIA:" in t:
            cases.append(mk("master", t, group="corpus"))
    base = [("AUDIO", "g1"), ("VIDEO", "g1"), ("SUBTITLES", "g1"), ("CLOSED-CAPTIONS", "g1")]
    # exhaustive reduced scope
    for mask in range(16):
        media = [base[i] for i in range(4) if mask >> i & 1]
        for a1, v1, s1, c1 in itertools.product([None, "g1"], [None, "g1"], [None, "g1"], [None, "g1", "NONE"]):
            for c2, a2 in itertools.product([None, "g1", "g2", "NONE"], [None, "g2"]):
                for iv in (None, "g1"):
                    for order in (None, "reverse"):
                        cfg = {"media": media, "variants": [{"audio": a1, "video": v1, "subs": s1, "cc": c1},
                                                            {"audio": a2, "cc": c2}, {"iframe": True, "video": iv}], "order": order}
                        cases.append(mk("master", c13_render(rng, cfg), group="exhaustive-small", meta={"cfg": cfg}))
    # session data: all triples over 2 ids x 3 languages
    sdv = [(i, l) for i in ("a", "b") for l in (None, "en", "es")]
    for trip in itertools.product(sdv, repeat=3):
        cfg = {"media": [], "variants": [], "sd": list(trip)}
        cases.append(mk("master", c13_render(rng, cfg), group="session-data", meta={"cfg": cfg}))
    # random full scope: 4 types x 2 ids (+ a group literally called NONE), up to 2 variants + i-frame, shuffled tags
    ids = ["g1", "g2"]
    for _ in range(ctx.n(6000, 150000)):
        allr = [(t, g) for t in MT for g in ids]
        media = [r for r in allr if rng.random() < 0.5]
        if rng.random() < 0.05:
            media.append(("CLOSED-CAPTIONS", "NONE"))
        vs = []
        for _ in range(rng.randint(0, 2)):
            pick = lambda extra=(): rng.choice([None, None, "g1", "g2"] + list(extra))
            vs.append({"audio": pick(), "video": pick(), "subs": pick(), "cc": pick(("NONE", "NONE"))})
        if rng.random() < 0.5:
            vs.append({"iframe": True, "video": rng.choice([None, "g1", "g2"])})
        sd = [(rng.choice("ab"), rng.choice([None, "en"])) for _ in range(rng.randint(0, 2))]
        cfg = {"media": media, "variants": vs, "sd": sd, "order": "shuffle"}
        cases.append(mk("master", c13_render(rng, cfg), group="random-full", meta={"cfg": cfg}))
    # larger generated masters, consistent and not
    for i in range(ctx.n(600, 6000)):
        cases.append(mk("master", G.gen_master(rng, features=ctx.features, consistent=(i % 2 == 0))[0], group="generated"))
    # ids that differ in letter case / a blank only are different ids (group ids, DATA-ID, LANGUAGE are compared as written)
    for lid in (["g1", "G1"], ["g1", "g1 "], ["g1", " g1"]):
        for _ in range(ctx.n(400, 8000)):
            allr = [(t, g) for t in MT for g in lid]
            media = [r for r in allr if rng.random() < 0.4]
            vs = []
            for _ in range(rng.randint(1, 2)):
                pick = lambda: rng.choice([None, None] + lid)
                vs.append({"audio": pick(), "video": pick(), "subs": pick(), "cc": pick()})
            if rng.random() < 0.5:
                vs.append({"iframe": True, "video": rng.choice([None] + lid)})
            cfg = {"media": media, "variants": vs, "sd": [], "order": "shuffle"}
            cases.append(mk("master", c13_render(rng, cfg), group="look-alike-ids", meta={"cfg": cfg}))
    sdl = [(i, l) for i in ("a", "A", "a ") for l in (None, "en", "EN")]
    for pair in itertools.product(sdl, repeat=2):
        cfg = {"media": [], "variants": [], "sd": list(pair)}
        cases.append(mk("master", c13_render(rng, cfg), group="look-alike-ids", meta={"cfg": cfg}))
    # "the same rule decides builder success": the configurations above through MasterPlaylistBuilder, every list setter either
    # called with its items, called with an empty list, or not called at all
    def script_of(cfg, unset):
        text = c13_render(rng, dict(cfg, order=None))
        lines = [l for l in text.split("\n") if l][1:]
        groups = {"media": [], "variants": [], "sdata": []}
        k = 0
        while k < len(lines):
            l = lines[k]
            if l.startswith("#EXT-X-STREAM-INF:"):
                groups["variants"].append(l + "\n" + lines[k + 1]); k += 2; continue
            groups["media" if l.startswith("#EXT-X-MEDIA:") else "variants" if l.startswith("#EXT-X-I-FRAME") else "sdata"].append(l)
            k += 1
        calls = []
        for name, v in groups.items():
            if v:
                calls.append(name + " " + " ".join(C.hx(x) for x in v))
            elif name not in unset:
                calls.append(name)
        rng.shuffle(calls)
        return "\n".join(calls) if calls else "ind 0"
    small = []
    for trip in itertools.product(sdv, repeat=2):
        small.append({"media": [], "variants": [], "sd": list(trip)})
        small.append({"media": [("AUDIO", "g1")], "variants": [{"audio": "g1", "video": None, "subs": None, "cc": None}], "sd": list(trip)})
        small.append({"media": [("AUDIO", "g1")], "variants": [], "sd": list(trip)})
    for mask in range(16):
        media = [base[i] for i in range(4) if mask >> i & 1]
        for a1, v1, s1, c1 in itertools.product([None, "g1"], [None, "g1"], [None, "g1"], [None, "g1", "NONE"]):
            small.append({"media": media, "variants": [{"audio": a1, "video": v1, "subs": s1, "cc": c1}, {"audio": None, "cc": rng.choice([None, "g1", "NONE"])}], "sd": []})
            small.append({"media": media, "variants": [{"iframe": True, "video": v1}], "sd": []})
    for cfg in small:
        for unset in ((), ("media", "variants", "sdata")):
            cases.append(mk("build_master", script_of(cfg, unset), group="builder", meta={"cfg": cfg, "built": True}))
    # renditions made with ExtXMedia::builder(): group ids no text can carry (a quote, a line break inside) are ids like any
    # other for the builder - a reference to `g1` is not a reference to `"g1"`
    hx = lambda t: t.encode().hex()
    odd = ['"g1"', 'g"1', "g\n1", "g\r1", "g1\n", '"g1', "g1"]
    for t, attr in (("AUDIO", "AUDIO"), ("VIDEO", "VIDEO"), ("SUBTITLES", "SUBTITLES")):
        for gid in odd:
            item = "type=%s+group=%s+name=%s" % (t, hx(gid), hx("n")) + ("+uri=" + hx("u") if t == "SUBTITLES" else "")
            var = '#EXT-X-STREAM-INF:BANDWIDTH=1,%s="g1"\nv.m3u8' % attr
            exp = gid == "g1"
            cases.append(mk("build_master", "mediab %s\nvariants %s" % (item, hx(var)), group="builder-odd-ids", meta={"expect": exp}))
    return cases


def c13_oracle(ctx, cases, impl, model):
    fails = []
    for c, a in zip(cases, impl):
        r = C.Resp(a)
        if r.status == "panic":
            fails.append(dict(describe(c.line, a), what="master parser panicked"))
            continue
        if "expect" in c.meta and c.meta["expect"] != (r.status == "ok"):
            fails.append(dict(describe(c.line, a), what="acceptance differs from the consistency rule (builder, rendition ids compared as they are): expected %s, implementation %s" % ("accept" if c.meta["expect"] else "reject", r.status), law="accept-iff-consistent"))
            continue
        cfg = c.meta.get("cfg")
        if cfg is not None:
            exp = c13_expect(cfg)
            if exp != (r.status == "ok"):
                fails.append(dict(describe(c.line, a), what="acceptance differs from the consistency rule: expected %s, implementation %s" % ("accept" if exp else "reject", r.status), law="accept-iff-consistent"))
                continue
        if r.status == "ok":
            media, variants = parse_master_obs(r.obs)
            # every value handed out is consistent
            cfg2 = {"media": media, "variants": variants}
            if not c13_expect(cfg2):
                fails.append(dict(describe(c.line, a), what="an accepted master playlist violates the reference constraints", law="ok-implies-consistent"))
            exp_a = "[" + ",".join("[" + ",".join(str(i) for i in expected_assoc(media, v)) + "]" for v in variants) + "]"
            if r.get("A") != exp_a:
                fails.append(dict(describe(c.line, a), what="rendition lookup returns %s, the references are %s" % (r.get("A"), exp_a), law="lookup",
                                  cc_none_vs_group_named_none=any(v.get("cc") == "NONE" for v in variants) and ("CLOSED-CAPTIONS", "NONE") in media))
            # the three stream selectors: variants with an AUDIO group / with a VIDEO group / with no group reference at all
            lst = lambda ix: "[" + ",".join(str(i) for i in ix) + "]"
            exp_s = "/".join([
                lst([i for i, v in enumerate(variants) if not v.get("iframe") and v.get("audio") is not None]),
                lst([i for i, v in enumerate(variants) if v.get("video") is not None]),
                lst([i for i, v in enumerate(variants) if v.get("video") is None and (v.get("iframe") or (v.get("audio") is None and v.get("subs") is None and v.get("cc") is None))])])
            if r.get("S") != exp_s:
                fails.append(dict(describe(c.line, a), what="audio_streams / video_streams / unassociated_streams select %s, the references say %s" % (r.get("S"), exp_s), law="stream-selectors"))
    return fails


@classifier("K5-cc-none-matches-group-named-NONE")
def _k5(f):
    return f.get("law") == "lookup" and f.get("cc_none_vs_group_named_none") is True


PROPS["C13"] = {
    "build": c13_build, "gate": {"status", "obs", "A", "S"}, "oracle": c13_oracle,
    "nontrivial": lambda c, a: bool(c.meta.get("cfg") and (c.meta["cfg"]["variants"] or c.meta["cfg"].get("sd"))) or (c.group in ("generated", "corpus") and a.startswith("ok")),
    "rule": "exhaustive reduced scope (every subset of 4 renditions x every {absent,g1[,NONE]} assignment of variant 1, {absent,g1,g2,NONE}x{absent,g2} of variant 2, i-frame video {absent,g1}, both tag orders), all triples of session data over 2 ids x 3 languages, random configurations over the full scope of the property (4 types x 2 ids, <= 2 variants + i-frame, shuffled tags, a group literally named NONE), generated larger masters (consistent and inconsistent); the small configurations through MasterPlaylistBuilder scripts (every list setter with items / empty / not called); look-alike group ids, DATA-IDs and languages (other case, a blank); every session-data tag with its own payload; non-trivial = configuration with at least one variant or session-data tag (distinct texts)",
    "exhaustive": False,
    "explanation": "theorems: validateVariants_iff, validateSessionData_iff, build_ok_iff, parseMaster_consistent, assembleMaster_ok_iff, associatedWith_iff, isAssociated_iff_partial (+ isAssociated_counterexample for K5); oracle: acceptance of every rendered configuration is compared with an independent Python statement of the rule, every accepted value is re-checked for consistency, its rendition lookup and the three stream selectors (audio_streams, video_streams, unassociated_streams) are compared with the references",
    "assumptions": ["the builder path of the same rule (MasterPlaylistBuilder::build): theorem build_ok_iff on the model; on the implementation the small configurations are also driven through MasterPlaylistBuilder scripts, with every list setter called with its items, with an empty list, or not at all (group 'builder')"],
}


# ------------------------------------------------------------------------------------------
# generic observation parser

class Node:
    __slots__ = ("kind", "tag", "items")

    def __init__(self, kind, tag, items):
        self.kind, self.tag, self.items = kind, tag, items

    def __getitem__(self, i):
        return self.items[i]

    def __len__(self):
        return len(self.items)

    def __repr__(self):
        return "%s%s%r" % (self.tag, self.kind, self.items)


def parse_obs(s):
    """`tag{a;b;[x,y]}` -> Node('{', tag, [...]); `[..]` -> Node('[', '', [...]); atoms stay strings"""
    pos = [0]

    def item(stops):
        start = pos[0]
        while pos[0] < len(s) and s[pos[0]] not in "{[" + stops:
            pos[0] += 1
        tag = s[start:pos[0]]
        if pos[0] < len(s) and s[pos[0]] == "{":
            pos[0] += 1
            fields = []
            while True:
                fields.append(item(";}"))
                ch = s[pos[0]]
                pos[0] += 1
                if ch == "}":
                    break
            return Node("{", tag, fields)
        if pos[0] < len(s) and s[pos[0]] == "[" and tag in ("", "v"):
            pos[0] += 1
            items = []
            if s[pos[0]] == "]":
                pos[0] += 1
                return Node("[", tag, items)
            while True:
                items.append(item(",]"))
                ch = s[pos[0]]
                pos[0] += 1
                if ch == "]":
                    break
            return Node("[", tag, items)
        return tag

    return item("")


def ostr(a):
    """`s<hex>` -> text, `-` -> None"""
    if a == "-":
        return None
    return C.unhx(a[1:])


class Seg:
    """a segment observation"""
    def __init__(self, n):
        self.number = int(n[0]); self.explicit = n[1] == "1"
        self.keys = n[2].items; self.map = None if n[3] == "-" else n[3]
        self.byte_range = None if n[4] == "-" else n[4]
        self.date_range = n[5]; self.disc = n[6] == "1"; self.pdt = n[7]
        self.duration = int(n[8][0]); self.title = ostr(n[8][1]); self.uri = ostr(n[9])
        self.node = n


class Media:
    def __init__(self, obs):
        n = parse_obs(obs)
        self.target = int(n[0]); self.mseq = int(n[1]); self.dseq = int(n[2]); self.ptype = n[3]
        self.ifo = n[4] == "1"; self.indep = n[5] == "1"; self.start = n[6]; self.end = n[7] == "1"
        self.excess = int(n[8]); self.unknown = [ostr(x) for x in n[9].items]
        self.segments = [Seg(x) for x in n[10].items]


def key_ident(k):
    """(uri, normalised format) of an xkey node, None for the marker"""
    if k == "K0":
        return None
    fmt = k[3]
    if fmt == "-" or fmt == "kfI":
        f = "identity"
    elif fmt.startswith("kfO"):
        f = "other:" + C.unhx(fmt[4:])
    else:
        f = fmt
    return (ostr(k[1]), f)


def brange(n):
    """`r<start>:<end>` -> (start|None, end)"""
    a, b = n[1:].split(":")
    return (None if a == "-" else int(a), int(b))


def dress_header(rng, text, avoid=()):
    """put other, valid playlist-level tags behind the TARGETDURATION line of a media playlist text (the subject of a property has
    to hold whatever else the playlist declares: a shared validation function that returns early under some playlist-level
    condition only shows then). `avoid`: kinds that would change the expectation."""
    opts = {"ifo": "#EXT-X-I-FRAMES-ONLY", "vod": "#EXT-X-PLAYLIST-TYPE:VOD", "event": "#EXT-X-PLAYLIST-TYPE:EVENT", "ds": "#EXT-X-DISCONTINUITY-SEQUENCE:2",
            "start": "#EXT-X-START:TIME-OFFSET=1.5", "version": "#EXT-X-VERSION:7", "unknown": "#EXT-X-HDR:1", "ms": "#EXT-X-MEDIA-SEQUENCE:5"}
    # INDEPENDENT-SEGMENTS brings the library's own rule on key methods (finding K1) into play: only where every key is AES-128
    if "METHOD=NONE" not in text and "SAMPLE-AES" not in text:
        opts["ind"] = "#EXT-X-INDEPENDENT-SEGMENTS"
    kinds = [k for k in opts if k not in avoid]
    picked = [k for k in kinds if rng.random() < 0.35]
    if "vod" in picked and "event" in picked:
        picked.remove("event")
    if not picked:
        return text
    out = []
    done = False
    for ln in text.split("\n"):
        out.append(ln)
        if not done and ln.startswith("#EXT-X-TARGETDURATION"):
            out += [opts[k] for k in picked]
            done = True
    return "\n".join(out) if done else text


def dress_media(rng, text, avoid=()):
    """put other, valid segment tags in front of some EXTINF lines of a media playlist text: the subject of a property has to
    hold for every segment whatever else the segment carries (a check that is skipped under some unrelated condition, e.g. a
    `continue` in a shared validation loop, only shows on such segments). `avoid`: kinds that would change the expectation."""
    kinds = [k for k in ("range", "disc", "key", "keyiv", "map", "daterange", "pdt", "title", "unknown", "frac") if k not in avoid]
    out = []
    i = 0
    for ln in text.split("\n"):
        if ln.startswith("#EXTINF:") and kinds and rng.random() < 0.6:
            i += 1
            k = rng.choice(kinds)
            if k == "range": out.append("#EXT-X-BYTERANGE:%d@%d" % (rng.randint(1, 1000), rng.randint(0, 1000)))
            elif k == "disc": out.append("#EXT-X-DISCONTINUITY")
            elif k == "key": out.append('#EXT-X-KEY:METHOD=AES-128,URI="dk%d"' % (i % 3))
            elif k == "keyiv": out.append('#EXT-X-KEY:METHOD=SAMPLE-AES,URI="dk",KEYFORMAT="f9",IV=0x%032x' % i)
            elif k == "map": out.append('#EXT-X-MAP:URI="dinit%d"' % i)
            elif k == "daterange": out.append('#EXT-X-DATERANGE:ID="dd%d",START-DATE="2010-02-19T14:54:23.031+08:00"' % i)
            elif k == "pdt": out.append("#EXT-X-PROGRAM-DATE-TIME:2010-02-19T14:54:23.031+08:00")
            elif k == "unknown": out.append("#EXT-X-DRESS:%d" % i)
            elif k == "title": ln = ln + "t" if ln.endswith(",") else ln
        out.append(ln)
    return "\n".join(out)


HOISTABLE = ("#EXT-X-KEY", "#EXT-X-MAP", "#EXT-X-BYTERANGE", "#EXT-X-PROGRAM-DATE-TIME", "#EXT-X-DATERANGE")


def hoist_extinf(text):
    """the same playlist with every EXTINF line moved to the FRONT of its item (in front of the KEY / MAP / BYTERANGE /
    DISCONTINUITY / PROGRAM-DATE-TIME / DATERANGE lines that directly precede it). RFC 8216 fixes no order among the tags of a
    segment: each applies to the next URI line, so the meaning is unchanged - but code that takes a segment's state (its keys, its
    range, its number) when it SEES THE EXTINF LINE instead of the URI line now gives another answer."""
    lines = text.split("\n")
    out = []
    for ln in lines:
        if ln.startswith("#EXTINF:"):
            j = len(out)
            while j > 0:
                p = out[j - 1].strip()
                if p.startswith(HOISTABLE) or p == "#EXT-X-DISCONTINUITY":
                    j -= 1
                else:
                    break
            out.insert(j, ln)
        else:
            out.append(ln)
    return "\n".join(out)


def inf_first(cases, ops=("media", "rt_media", "media_fromstr"), every=1):
    """`cases` plus, for every `every`-th case of the given ops whose text changes under `hoist_extinf`, a copy with the EXTINF
    lines hoisted (same meta: the expectation is about the segments, not about the order of their tags)"""
    out = list(cases)
    k = 0
    for c in cases:
        if c.op not in ops:
            continue
        parts = c.line.split("\t")
        t = C.unhx(parts[1])
        h = hoist_extinf(t)
        if h == t or C.hx(t) != parts[1]:
            continue
        k += 1
        if k % every:
            continue
        out.append(Case("\t".join([parts[0], C.hx(h)] + parts[2:]), (c.group or "") + "/inf-first", dict(c.meta, text=h) if "text" in c.meta else c.meta))
    return out


# ------------------------------------------------------------------------------------------
# C06

C06_FMT = [None, "identity", "f2", "com.apple.streamingkeydelivery", "F2", "Identity"]
C06_FMT_ID = ["identity", "identity", "other:f2", "kfF", "other:F2", "other:Identity"]
C06_ALPHA = [("K", f, u) for f in range(4) for u in ("a", "b")] + [("N",), ("M",), ("S",)]
# formats and URIs that differ in letter case only are different formats / keys (the KEYFORMAT string is compared as written)
C06_ALPHA_LOOK = [("K", f, u) for f in (1, 2, 4, 5) for u in ("a", "A")] + [("N",), ("M",), ("S",)]


def c06_render(seq):
    lines = ["#EXTM3U", "#EXT-X-TARGETDURATION:10"]
    ns = 0
    for ev in seq:
        if ev[0] == "K":
            attr = ev[3] if len(ev) > 3 else ""
            l = '#EXT-X-KEY:METHOD=%s,URI="%s"' % ("SAMPLE-AES" if attr == "saes" else "AES-128", ev[2])
            if attr.startswith("iv"):
                l += ",IV=0x%032x" % int(attr[2:])
            if C06_FMT[ev[1]] is not None:
                l += ',KEYFORMAT="%s"' % C06_FMT[ev[1]]
            if attr.startswith("v"):
                l += ',KEYFORMATVERSIONS="%s"' % attr[1:]
            lines.append(l)
        elif ev[0] == "N":
            lines.append("#EXT-X-KEY:METHOD=NONE")
        elif ev[0] == "M":
            lines.append('#EXT-X-MAP:URI="init%d"' % ns)
        else:
            lines += ["#EXTINF:1,", "s%d" % ns]
            ns += 1
    return "\n".join(lines) + "\n"


def c06_spec(seq):
    """RFC 8216 4.3.2.4, written from the property text: returns (accepted, [(segment keys, map keys)])"""
    cur = {}       # format -> uri ; or the marker
    marker = False
    pending_map = None
    partial = False
    out = []
    for ev in seq:
        if ev[0] == "K":
            if marker:
                cur, marker = {}, False
            cur = dict(cur); cur[C06_FMT_ID[ev[1]]] = ev[2] if len(ev) < 4 else (ev[2], ev[3]); partial = True
        elif ev[0] == "N":
            cur, marker = {}, True; partial = True
        elif ev[0] == "M":
            pending_map = (None if marker else frozenset((u, f) for f, u in cur.items())); partial = True
            pending_map = ("MARK",) if marker else pending_map
        else:
            snap = ("MARK",) if marker else frozenset((u, f) for f, u in cur.items())
            out.append((snap, pending_map)); pending_map = None; partial = False
    return (not partial), out


def key_attr(k):
    """which of the one-attribute variants of the C06 alphabet a reported key is"""
    if k[0] != "aes":
        return "saes"
    if k[2].startswith("ivA"):
        return "iv%d" % int(k[2][3:], 16)
    if k[4] != "-":
        return "v" + "/".join(str(x) for x in getattr(k[4], "items", []))
    return ""


def c06_snapshot(keys, attr=False):
    if attr:
        ids = [None if k == "K0" else ((key_ident(k)[0], key_attr(k)), key_ident(k)[1]) for k in keys]
        if ids == [None]:
            return ("MARK",), True
        ok = None not in ids and len({i[1] for i in ids}) == len(ids)
        return frozenset(ids), ok
    ids = [key_ident(k) for k in keys]
    if ids == [None]:
        return ("MARK",), True
    ok = None not in ids and len(set(ids)) == len(ids) and len({i[1] for i in ids}) == len(ids)
    return frozenset(ids), ok


def c06_build(ctx):
    cases = [c for c in corpus_requests() if c.op in ("media",)]
    maxlen = ctx.n(4, 5)
    for n in range(1, maxlen + 1):
        for seq in itertools.product(C06_ALPHA, repeat=n):
            cases.append(mk("media", c06_render(seq), group="exhaustive<=%d" % maxlen, meta={"seq": seq}))
    rng = ctx.rng
    for _ in range(ctx.n(3000, 60000)):
        n = rng.randint(maxlen + 1, 60)
        seq = tuple(rng.choice(C06_ALPHA) if rng.random() < 0.7 else ("S",) for _ in range(n)) + (("S",),)
        cases.append(mk("media", c06_render(seq), group="random-long", meta={"seq": seq}))
        if rng.random() < 0.4:
            cases.append(mk("media", dress_header(rng, dress_media(rng, c06_render(seq), avoid=("key", "keyiv", "map"))), group="random-long-dressed", meta={"seq": seq}))
    for _ in range(ctx.n(500, 5000)):
        cases.append(mk("media", G.gen_media(rng, key_weight=0.6, features=ctx.features)[0], group="generated"))
    for n in range(1, 4):
        for seq in itertools.product(C06_ALPHA_LOOK, repeat=n):
            if seq[-1] == ("S",):
                cases.append(mk("media", c06_render(seq), group="look-alike-formats<=3", meta={"seq": seq}))
    for _ in range(ctx.n(600, 12000)):
        n = rng.randint(4, 30)
        seq = tuple(rng.choice(C06_ALPHA_LOOK) if rng.random() < 0.7 else ("S",) for _ in range(n)) + (("S",),)
        cases.append(mk("media", c06_render(seq), group="look-alike-formats-long", meta={"seq": seq}))
    # a key replaced by one that differs in ONE other attribute only (IV, method, versions; same URI, same format): it is a new key
    alpha_attr = [("K", f, "a", at) for f in (0, 2) for at in ("", "iv1", "iv2", "v1/2", "v3", "saes")] + [("N",), ("M",), ("S",)]
    for n in range(2, 4):
        for seq in itertools.product(alpha_attr, repeat=n):
            if sum(1 for ev in seq if ev[0] == "K") >= 2:
                seq = seq + (("S",),)
                cases.append(mk("media", c06_render(seq), group="one-attribute-apart", meta={"seq": seq, "attr": True}))
    for _ in range(ctx.n(600, 12000)):
        n = rng.randint(4, 24)
        seq = tuple(rng.choice(alpha_attr) if rng.random() < 0.7 else ("S",) for _ in range(n)) + (("S",),)
        cases.append(mk("media", c06_render(seq), group="one-attribute-apart", meta={"seq": seq, "attr": True}))
    # strings the source spells now and did not spell when source_literals.json was written: each as a KEYFORMAT of its own,
    # next to every well-known format (it is its own format unless it IS one of the well-known strings)
    known = {"identity": "identity", "com.apple.streamingkeydelivery": "kfF", "urn:uuid:edef8ba9-79d6-4ace-a3c8-27dcd51d21ed": "kfW", "com.microsoft.playready": "kfP"}
    base_n = 6
    for lit in G.new_literals()[:12]:
        if '"' in lit or "\n" in lit:
            continue
        del C06_FMT[base_n:], C06_FMT_ID[base_n:]
        C06_FMT.extend([lit, "com.apple.streamingkeydelivery", "urn:uuid:edef8ba9-79d6-4ace-a3c8-27dcd51d21ed", "com.microsoft.playready"])
        C06_FMT_ID.extend([known.get(lit, "other:" + lit), "kfF", "kfW", "kfP"])
        alpha = [("K", f, u) for f in (0, 2, base_n, base_n + 1, base_n + 2, base_n + 3) for u in ("a", "b")] + [("N",), ("S",)]
        for n in range(1, 4):
            for seq in itertools.product(alpha, repeat=n):
                if any(ev[0] == "K" and ev[1] == base_n for ev in seq):
                    seq = seq + (("S",),)
                    cases.append(mk("media", c06_render(seq), group="new-literal-as-keyformat", meta={"seq": seq, "fmt": list(C06_FMT), "fmt_id": list(C06_FMT_ID)}))
    del C06_FMT[base_n:], C06_FMT_ID[base_n:]
    return inf_first(cases)


def c06_check_generic(c, a, fails):
    """properties of every accepted value, whatever the input: no duplicate format, marker alone, D field"""
    r = C.Resp(a)
    m = Media(r.obs)
    dexp = []
    for s in m.segments:
        snap, ok = c06_snapshot(s.keys)
        if not ok:
            fails.append(dict(describe(c.line, a), what="a segment reports two keys of one key format, or the marker next to a key", law="one-key-per-format"))
            return None
        mk_ = "-"
        if s.map is not None:
            _, okm = c06_snapshot(s.map[2].items)
            if not okm:
                fails.append(dict(describe(c.line, a), what="a map reports two keys of one key format, or the marker next to a key", law="one-key-per-format"))
                return None
            mk_ = "[" + ",".join(str(i) for i, k in enumerate(s.map[2].items) if k != "K0") + "]"
        dexp.append("[" + ",".join(str(i) for i, k in enumerate(s.keys) if k != "K0") + "]/" + mk_)
    if r.get("D") != "[" + ",".join(dexp) + "]":
        fails.append(dict(describe(c.line, a), what="Decryptable::keys() is not the key list without the marker: %s" % r.get("D"), law="decryptable"))
    return m


def c06_oracle(ctx, cases, impl, model):
    fails = []
    for c, a in zip(cases, impl):
        r = C.Resp(a)
        if r.status == "panic":
            fails.append(dict(describe(c.line, a), what="media parser panicked")); continue
        seq = c.meta.get("seq")
        if seq is None:
            if r.status == "ok":
                c06_check_generic(c, a, fails)
            continue
        if "fmt_id" in c.meta:          # a case rendered with its own format table (new-literal group)
            saved = (list(C06_FMT), list(C06_FMT_ID))
            C06_FMT[:], C06_FMT_ID[:] = c.meta["fmt"], c.meta["fmt_id"]
            try:
                acc, exp = c06_spec(seq)
            finally:
                C06_FMT[:], C06_FMT_ID[:] = saved
        else:
            acc, exp = c06_spec(seq)
        if acc != (r.status == "ok"):
            fails.append(dict(describe(c.line, a), what="event sequence %s: expected %s, implementation %s" % ("".join(e[0] for e in seq), "accept" if acc else "reject", r.status), law="accept"))
            continue
        if not acc:
            continue
        m = c06_check_generic(c, a, fails)
        if m is None:
            continue
        got = []
        at = bool(c.meta.get("attr"))
        for s in m.segments:
            snap, _ = c06_snapshot(s.keys, at)
            ms = None if s.map is None else c06_snapshot(s.map[2].items, at)[0]
            got.append((snap, ms))
        if got != exp:
            i = next((i for i, (x, y) in enumerate(zip(got, exp)) if x != y), min(len(got), len(exp)))
            fails.append(dict(describe(c.line, a), what="keys in effect differ from RFC 8216 4.3.2.4 at segment %d: reported %s, specified %s" % (i, got[i:i + 1], exp[i:i + 1]), law="keys-in-effect"))
    return fails


def c06_canon(raw, keys):
    """status + per segment the SET of keys (order is C11's subject, IV completion C07's) and the map's key set"""
    r = C.Resp(raw)
    if r.status != "ok":
        return r.status
    try:
        m = Media(r.obs)
    except Exception:
        return raw
    out = []
    for s in m.segments:
        ks = sorted(repr(key_ident(k)) + (k[0] + k[1] if k != "K0" else "") for k in s.keys)
        mk_ = "-" if s.map is None else ",".join(sorted(repr(key_ident(k)) + (k[0] + k[1] if k != "K0" else "") for k in s.map[2].items))
        out.append("%s|%s|%s" % (s.uri, ",".join(ks), mk_))
    return "ok " + ";".join(out)


PROPS["C06"] = {
    "build": c06_build, "gate": {"status"}, "canon": c06_canon, "oracle": c06_oracle,
    "nontrivial": lambda c, a: a.startswith("ok") and ("#EXT-X-KEY" in c.payload),
    "rule": "every event sequence over the 11-letter alphabet {key in one of 4 key formats (absent, \"identity\", custom, FairPlay) x 2 payloads, METHOD=NONE, EXT-X-MAP, segment} up to the length bound (quick 4, thorough 5), random sequences up to length 60, generated playlists with a high key rate; look-alike formats and URIs (other letter case) exhaustively to length 3 and at random; every string literal the source spells now and did not spell in source_literals.json as a KEYFORMAT of its own next to the well-known formats; non-trivial = accepted text with at least one EXT-X-KEY",
    "exhaustive": True,
    "explanation": "theorems: abs_step (one-step refinement of the parser's key-set update against the RFC specification), rel_fold (every line history), keys_in_effect_lines / keys_in_effect (every accepted text: each segment and map reports the specification's snapshot), no_two_keys_same_format, decryptable_abs; oracle: independent Python simulation of RFC 8216 4.3.2.4 per event sequence compared with the implementation's per-segment and per-map key sets",
    "assumptions": ["exhaustive = all sequences up to the stated length over the stated alphabet (not all texts)"],
}


# ------------------------------------------------------------------------------------------
# C07

U64 = 2**64 - 1


def c07_case(rng, nseg=None, mseq=None, restate=None, preset=None):
    """(text, expected) ; expected = None if the numbering overflows, else per segment (number, {(uri, fmt): iv}).
    restate: an earlier EXT-X-MEDIA-SEQUENCE with this value in the header (the last one counts);
    preset: the value a pre-configured builder holds before it parses the text (the text's tag overrides it, 0 included)"""
    nseg = rng.randint(1, 6) if nseg is None else nseg
    if mseq is None:
        mseq = rng.choice([None, 0, 1, 7, 2**32, 2**63, U64 - nseg, U64 - nseg + 1, U64 - nseg + 2, U64, rng.randint(0, U64)])
    lines = ["#EXT-X-TARGETDURATION:10"]
    body = []
    cur, marker = {}, False
    snaps = []
    for i in range(nseg):
        for _ in range(rng.choice([0, 0, 1, 1, 2, 3])):
            if rng.random() < 0.15:
                body.append("#EXT-X-KEY:METHOD=NONE"); cur, marker = {}, True
                continue
            method = rng.choice(["AES-128", "AES-128", "SAMPLE-AES"])
            fmt = rng.choice([None, None, "identity", "f2", "com.apple.streamingkeydelivery"])
            iv = None
            uri = rng.choice(["k1", "k2", "k3"])
            l = '#EXT-X-KEY:METHOD=%s,URI="%s"' % (method, uri)
            if rng.random() < 0.4:
                iv = "%032x" % rng.choice([0, 1, i, 2**128 - 1, rng.getrandbits(128)])
                l += ",IV=" + rng.choice(["0x", "0X"]) + (iv.upper() if rng.random() < 0.5 else iv)
            if fmt is not None:
                l += ',KEYFORMAT="%s"' % fmt
            body.append(l)
            if marker:
                cur, marker = {}, False
            nf = {"identity": "identity", None: "identity", "f2": "other:f2", "com.apple.streamingkeydelivery": "kfF"}[fmt]
            cur = dict(cur); cur[nf] = (uri, method, iv, fmt)
        body += ["#EXTINF:1,", "s%d" % i]
        snaps.append(("MARK",) if marker else dict(cur))
    pos = rng.randint(0, len(body)) if rng.random() < 0.6 else 0
    # never split a tag from ... (any line boundary is fine for a playlist-level tag)
    if mseq is not None:
        ml = "#EXT-X-MEDIA-SEQUENCE:%d" % mseq
        if restate is not None:
            lines.append("#EXT-X-MEDIA-SEQUENCE:%d" % restate)
        if pos == 0:
            lines.append(ml)
        else:
            body.insert(pos, ml)
    text = "\n".join(["#EXTM3U"] + lines + body) + "\n"
    base = mseq if mseq is not None else (preset or 0)
    if base + nseg - 1 > U64:
        return text, None, base
    exp = []
    for i, sn in enumerate(snaps):
        n = base + i
        if sn == ("MARK",):
            exp.append((n, "MARK")); continue
        ks = {}
        for nf, (uri, method, iv, fmt) in sn.items():
            if iv is not None:
                e = ("A", iv)
            elif method == "AES-128" and fmt in (None, "identity"):
                e = ("N", n)
            else:
                e = ("M",)
            ks[(uri, nf)] = e
        exp.append((n, ks))
    return text, exp, base


def iv_of(k):
    v = k[2]
    if v.startswith("ivA"):
        return ("A", v[3:])
    if v.startswith("ivN"):
        return ("N", int(v[3:]))
    return ("M",)


def c07_build(ctx):
    rng = ctx.rng
    cases = [c for c in corpus_requests() if c.op in ("media", "rt_media")]
    for _ in range(ctx.n(6000, 120000)):
        text, exp, base = c07_case(rng)
        cases.append(mk("rt_media", text, group="numbering+iv", meta={"exp": exp, "base": base}))
    for _ in range(ctx.n(2000, 40000)):
        text, exp, base = c07_case(rng)
        cases.append(mk("rt_media", dress_header(rng, dress_media(rng, text, avoid=("key", "keyiv")), avoid=("ms",)), group="numbering+iv-dressed", meta={"exp": exp, "base": base}))
    for t in corpus_texts():
        if "#EXTINF" in t:
            cases.append(mk("rt_media", t, group="corpus"))
    for _ in range(ctx.n(800, 8000)):
        cases.append(mk("rt_media", G.gen_media(rng, key_weight=0.5, features=ctx.features)[0], group="generated"))
    # the tag restated (the last one counts, 0 included), and a builder that already holds a media sequence when it parses
    small = [0, 1, 7, 2**32]
    for a_, b_ in itertools.product(small, repeat=2):
        for _ in range(ctx.n(6, 60)):
            text, exp, base = c07_case(rng, mseq=b_, restate=a_)
            cases.append(mk(rng.choice(["rt_media", "media_fromstr"]), text, group="restated", meta={"exp": exp, "base": base}))
    for pre, inner in itertools.product(small, [None] + small):
        for _ in range(ctx.n(5, 50)):
            text, exp, base = c07_case(rng, mseq=inner, preset=pre)
            cases.append(mk("build_media", "ms %d\nparse %s" % (pre, C.hx(text)), group="preset-builder", meta={"exp": exp, "base": base, "text": text}))
    # built playlists, segments with and without explicit numbers: the effective IV of a built segment is its number too
    for _ in range(ctx.n(2500, 40000)):
        n = rng.randint(1, 5)
        style = rng.choice(["implicit", "explicit-perm", "explicit-some", "random"])
        if style == "implicit":
            nums = [None] * n
        elif style == "explicit-perm":
            nums = list(range(n)); rng.shuffle(nums)
        elif style == "explicit-some":
            nums = [j if rng.random() < 0.5 else None for j in range(n)]
        else:
            nums = [rng.choice([None, rng.randint(0, n)]) for _ in range(n)]
        ms = rng.choice([None, None, 0, 0, 1, 5])
        segs, want = [], {}
        for j in range(n):
            keys = []
            for q in range(rng.choice([0, 1, 1, 2])):
                method = rng.choice(["AES-128", "AES-128", "SAMPLE-AES"])
                fmt = [None, "identity", "f2"][q] if rng.random() < 0.7 else rng.choice([None, "identity"])
                if any(NF[k[3]] == NF[fmt] for k in keys):
                    continue
                iv = ("%032x" % rng.choice([0, j, 2**128 - 1, rng.getrandbits(128)])) if rng.random() < 0.3 else None
                keys.append((method, "k%d_%d" % (j, q), iv, fmt))
            segs.append({"events": [], "keys": keys, "uri": "s%d" % j, "br": None, "dur": NS, "title": None, "disc": False, "pdt": None, "map": None})
            want["s%d" % j] = keys
        mode = rng.choice(["push", "segs"])
        calls = ["td 10000000000"] + (["ms %d" % ms] if ms is not None else [])
        if mode == "push":
            calls += ["push " + c20_seg_script(sg, num) for sg, num in zip(segs, nums)]
        else:
            calls += ["segs " + " | ".join(c20_seg_script(sg, num) for sg, num in zip(segs, nums))]
        cases.append(mk("build_media", "\n".join(calls), group="built:" + style, meta={"built": want, "ms": ms or 0}))
    return inf_first(cases)


def c07_oracle(ctx, cases, impl, model):
    fails = []
    for c, a in zip(cases, impl):
        r = C.Resp(a)
        if "built" in c.meta:
            if r.status == "panic":
                fails.append(dict(describe(c.line, a), what="the media playlist builder panicked", law="no-panic")); continue
            if r.status != "ok":
                continue
            m = Media(r.obs)
            for i, sg in enumerate(m.segments):
                if sg.number != m.mseq + i:
                    fails.append(dict(describe(c.line, a), what="built segment %d has number %d, expected media sequence %d + %d" % (i, sg.number, m.mseq, i), law="numbering",
                                      explicit_number_kept_under_media_sequence=(sg.explicit and m.mseq > 0 and sg.number == i))); break
                exp = {}
                for (method, uri, iv, fmt) in c.meta["built"].get(sg.uri, []):
                    exp[(uri, NF[fmt])] = ("A", iv) if iv is not None else (("N", sg.number) if method == "AES-128" and fmt in (None, "identity") else ("M",))
                got = {key_ident(k): iv_of(k) for k in sg.keys if k != "K0"}
                if got != exp:
                    fails.append(dict(describe(c.line, a), what="built segment %s (number %d): effective IVs %s, expected %s" % (sg.uri, sg.number, got, exp), law="iv-built")); break
            continue
        if r.status == "panic":
            fails.append(dict(describe(c.line, a), what="media parser panicked", law="no-panic")); continue
        if r.status != "ok":
            if c.meta.get("exp") is not None and "exp" in c.meta:
                fails.append(dict(describe(c.line, a), what="a valid playlist (numbering within 64 bits) was rejected", law="accept"))
            continue
        if "exp" in c.meta and c.meta["exp"] is None:
            fails.append(dict(describe(c.line, a), what="numbering overflows 64 bits but the playlist was accepted", law="overflow")); continue
        m = Media(r.obs)
        for i, s in enumerate(m.segments):
            if s.number != m.mseq + i:
                fails.append(dict(describe(c.line, a), what="segment %d has number %d, expected media sequence %d + %d" % (i, s.number, m.mseq, i), law="numbering")); break
        exp = c.meta.get("exp")
        if exp is not None:
            if m.mseq != c.meta["base"]:
                fails.append(dict(describe(c.line, a), what="media sequence reported %d, written %d" % (m.mseq, c.meta["base"]), law="media-sequence")); continue
            for i, (s, (n, ks)) in enumerate(zip(m.segments, exp)):
                got = "MARK" if [key_ident(k) for k in s.keys] == [None] else {key_ident(k): iv_of(k) for k in s.keys}
                if got != ks:
                    fails.append(dict(describe(c.line, a), what="segment %d (number %d): effective IVs %s, expected %s" % (i, n, got, ks), law="iv")); break
        # the text never carries a derived IV: every IV= in the text is an IV= of the input (case-insensitive)
        text = C.unhx(r.get("T", ""))
        written = set(x.lower() for x in re.findall(r"IV\s*=\s*0[xX]([0-9a-fA-F]{32})", c.meta.get("text", c.payload)))
        for x in re.findall(r"IV=0[xX]([0-9a-fA-F]+)", text):
            if x.lower() not in written:
                fails.append(dict(describe(c.line, a), what="the serialised text contains an IV that was not written in the input (derived IV written)", law="derived-iv-written")); break
        if "InitializationVector::" in text and "InitializationVector::" not in c.meta.get("text", c.payload):
            fails.append(dict(describe(c.line, a), what="the serialised text contains a debug rendering of a derived/missing IV", law="derived-iv-written"))
    return fails


@classifier("K7-explicit-number-is-slot-index")
def _k7(f):
    return f.get("explicit_number_kept_under_media_sequence") is True


def c07_canon(raw, keys):
    """status, media sequence, per segment number and the (key identity -> effective IV) map"""
    r = C.Resp(raw)
    if r.status != "ok":
        return r.status
    m = Media(r.obs)
    return "ok %d " % m.mseq + ";".join("%d:%s" % (s.number, sorted((repr(key_ident(k)), iv_of(k)) if k != "K0" else ("K0",) for k in s.keys)) for s in m.segments)


PROPS["C07"] = {
    "build": c07_build, "gate": {"status"}, "canon": c07_canon, "oracle": c07_oracle,
    "nontrivial": lambda c, a: a.startswith("ok") and "#EXT-X-KEY" in c.payload,
    "rule": "random playlists of 1-6 segments with media sequences from {absent, 0, 1, 7, 2^32, 2^63, 2^64-1-len .. 2^64-1, random} placed at a random line boundary, key histories over 4 formats / 2 methods / explicit 128-bit IVs in both hex cases / METHOD=NONE; repository fixtures; generated playlists; builder call sequences (push_segment / segments) with implicit, permuted explicit, partly explicit and random explicit numbers and per-segment keys; the tag restated (all pairs over 0, 1, 7, 2^32) and a builder that holds a media sequence before it parses the text (scripts ending in parse); non-trivial = accepted text with at least one EXT-X-KEY",
    "explanation": "theorems: numbering_lines / numbering (number = media sequence + index, < 2^64, media sequence = last MEDIA-SEQUENCE line wherever it stands), completeIv_spec, completeIv_explicit, derived_iv_value, effective_ivs_lines, show_iv_free, stripIv_spec, stripIv_completeIv; oracle: independent Python computation of numbers and effective IVs from the generated history, and a scan of the serialised text for IV attributes that were not in the input",
    "assumptions": ["built playlists: segments with and without explicit numbers, media sequence in {absent, 0, 1, 5} (group built:*); acceptance of explicit numbers is C20's subject"],
}


# ------------------------------------------------------------------------------------------
# C08

def c08_render(segs, durs=None):
    lines = ["#EXTM3U", "#EXT-X-TARGETDURATION:10"]
    for si, (uri, kind, n, o, mp) in enumerate(segs):
        if mp is not None:
            # the map of a single-file stream lives in the media file itself: the same URI as the segment, every other time
            # (a MAP's byte range is the map's business: it never takes part in the segment's continuation)
            same = (len(lines) + n) % 2 == 0
            lines.append('#EXT-X-MAP:URI="%s",BYTERANGE="%s"' % (uri if same else "init", mp))
        if kind == "E":
            lines.append("#EXT-X-BYTERANGE:%d@%d" % (n, o))
        elif kind == "I":
            lines.append("#EXT-X-BYTERANGE:%d" % n)
        lines += ["#EXTINF:%s," % (durs[si % len(durs)] if durs else "1"), uri]
    return "\n".join(lines) + "\n"


def c08_spec(segs):
    """(accepted, [resolved (start,end) or None], in_domain)"""
    prev = None   # (uri, resolved) of the previous segment
    out = []
    for (uri, kind, n, o, mp) in segs:
        if mp is not None:
            parts = mp.split("@")
            if (int(parts[1]) if len(parts) > 1 else 0) + int(parts[0]) > U64:
                return False, [], True
        if kind == "N":
            out.append(None); prev = (uri, None)
        elif kind == "E":
            if n + o > U64:
                return False, [], True
            out.append((o, o + n)); prev = (uri, (o, o + n))
        else:
            if prev is None or prev[1] is None or prev[0] != uri:
                return False, [], True
            st = prev[1][1]
            if st + n > U64:
                return True, [], False     # sums beyond 2^64: outside the property's domain
            out.append((st, st + n)); prev = (uri, (st, st + n))
    return True, out, True


def c08_build(ctx):
    rng = ctx.rng
    cases = [c for c in corpus_requests() if c.op in ("media", "rt_media")]
    uris = ["a.ts", "b.ts"]
    maxlen = ctx.n(4, 5)
    kinds = [(u, k) for u in uris for k in "NEI"]
    for n in range(1, maxlen + 1):
        for combo in itertools.product(kinds, repeat=n):
            segs = [(u, k, 10 * (i + 1), 100 * (i + 1), None) for i, (u, k) in enumerate(combo)]
            cases.append(mk("rt_media", c08_render(segs), group="exhaustive<=%d" % maxlen, meta={"segs": segs}))
            # the same through a builder that tolerates 2 s over the target, with segments in the tolerated band (10, 12]: what the
            # duration rule tolerates has no say in the byte-range rule
            for durs in (["11"], ["1", "12"], ["11.5", "1"], ["10.4", "12", "1"]):
                cases.append(mk("media_builder", c08_render(segs, durs), str(2 * NS), group="exhaustive-with-allowance", meta={"segs": segs}))
    vals = [0, 1, 2**32, 2**63, U64]
    for _ in range(ctx.n(4000, 80000)):
        segs = []
        for i in range(rng.randint(1, 6)):
            pick = lambda: rng.choice(vals) if rng.random() < 0.4 else rng.randint(0, 10**6)
            mp = None
            if rng.random() < 0.2:
                mp = "%d@%d" % (pick(), pick()) if rng.random() < 0.7 else "%d" % pick()
            # "the same URI" is the same string: URIs that differ in letter case, an escape, a query or a dot segment are others
            u = rng.choice(uris) if rng.random() < 0.7 else rng.choice(["A.ts", "a.TS", "a.ts?", "./a.ts", "a%2Ets", "B.ts", "a.ts#"])
            segs.append((u, rng.choice("NEEII"), pick(), pick(), mp))
        cases.append(mk("rt_media", c08_render(segs), group="random-values", meta={"segs": segs}))
        if rng.random() < 0.5:
            cases.append(mk("rt_media", dress_header(rng, dress_media(rng, c08_render(segs), avoid=("range", "map"))), group="random-values-dressed", meta={"segs": segs}))
    for t in corpus_texts():
        if "BYTERANGE" in t:
            cases.append(mk("rt_media", t, group="corpus"))
    for _ in range(ctx.n(500, 5000)):
        cases.append(mk("rt_media", G.gen_media(rng, features=ctx.features)[0], group="generated"))
    # the builder path, segments with and without explicit numbers (equal to their slot): the same resolution as for the text
    for combo in itertools.product([(u, k) for u in ("a.ts", "b.ts") for k in "NEI"], repeat=3):
        segs = [(u, k, 10 * (i + 1), 100 * (i + 1), None) for i, (u, k) in enumerate(combo)]
        for mask in (0, 0b111, 0b010, 0b110, 0b101):
            calls = ["td 10000000000"]
            for i, (u, k, n, o, _) in enumerate(segs):
                t = "push dur=1000000000 uri=%s" % C.hx(u)
                if mask >> i & 1: t += " num=%d" % i
                if k == "E": t += " br=%d@%d" % (n, o)
                elif k == "I": t += " br=%d" % n
                calls.append(t)
            cases.append(mk("build_media", "\n".join(calls), group="builder-explicit-numbers", meta={"segs": segs}))
    # a MAP with a byte range of the SAME file in front of every kind of segment range
    for combo in itertools.product([(u, k) for u in ("a.ts", "b.ts") for k in "NEI"], repeat=3):
        for mpos in range(3):
            for mp in ("5@0", "7"):
                text = ["#EXTM3U", "#EXT-X-TARGETDURATION:10"]
                segs = []
                for i, (u, k) in enumerate(combo):
                    if i == mpos:
                        text.append('#EXT-X-MAP:URI="%s",BYTERANGE="%s"' % (u, mp))
                    if k == "E": text.append("#EXT-X-BYTERANGE:%d@%d" % (10 * (i + 1), 100 * (i + 1)))
                    elif k == "I": text.append("#EXT-X-BYTERANGE:%d" % (10 * (i + 1)))
                    text += ["#EXTINF:1,", u]
                    segs.append((u, k, 10 * (i + 1), 100 * (i + 1), None))
                cases.append(mk("rt_media", "\n".join(text) + "\n", group="map-of-the-same-file", meta={"segs": segs}))
    # every pair of look-alike URIs, explicit range then offset-less range, through the three entry points
    look = ["a.ts", "A.ts", "a.TS", "a.ts?", "./a.ts", "a%2Ets", "a.ts#", "a.tsx", "a.t"]
    for u1, u2 in itertools.product(look, repeat=2):
        segs = [(u1, "E", 10, 100, None), (u2, "I", 20, 0, None)]
        for op, args in (("rt_media", []), ("media_fromstr", []), ("media_builder", ["-"])):
            cases.append(mk(op, c08_render(segs), *args, group="look-alike-uris", meta={"segs": segs}))
    return inf_first(cases, every=2)


def c08_oracle(ctx, cases, impl, model):
    fails = []
    for c, a in zip(cases, impl):
        r = C.Resp(a)
        if r.status == "panic":
            fails.append(dict(describe(c.line, a), what="media parser panicked", law="no-panic")); continue
        segs = c.meta.get("segs")
        if segs is not None:
            acc, exp, dom = c08_spec(segs)
            if not dom:
                continue
            if acc != (r.status == "ok"):
                fails.append(dict(describe(c.line, a), what="byte-range continuity: expected %s, implementation %s" % ("accept" if acc else "reject", r.status), law="accept")); continue
        if r.status != "ok":
            continue
        m = Media(r.obs)
        if segs is not None:
            got = [None if s.byte_range is None else brange(s.byte_range) for s in m.segments]
            if got != exp:
                fails.append(dict(describe(c.line, a), what="resolved ranges %s, expected %s" % (got, exp), law="resolution")); continue
            for s, (uri, kind, n, o, mp) in zip(m.segments, segs):
                if mp is not None:
                    parts = mp.split("@")
                    e = (int(parts[1]), int(parts[1]) + int(parts[0])) if len(parts) > 1 else (None, int(parts[0]))
                    if s.map is None or s.map[1] == "-" or brange(s.map[1]) != e:
                        fails.append(dict(describe(c.line, a), what="EXT-X-MAP BYTERANGE %s reported as %s" % (mp, s.map and s.map[1]), law="map-range")); break
        # every reported range has an explicit start; the text carries explicit offsets and re-parses to the same ranges
        text = C.unhx(r.get("T", ""))
        for s in m.segments:
            if s.byte_range is not None and brange(s.byte_range)[0] is None:
                fails.append(dict(describe(c.line, a), what="a segment is reported with an offset-less byte range", law="explicit")); break
        for l in text.split("\n"):
            if l.startswith("#EXT-X-BYTERANGE:") and "@" not in l:
                fails.append(dict(describe(c.line, a), what="the serialised text has a byte range without offset: %s" % l, law="text-explicit")); break
        rr = r.get("R")
        if rr not in ("=", None):
            if rr in ("err", "panic"):
                fails.append(dict(describe(c.line, a), what="the serialised playlist does not re-parse (%s)" % rr, law="reparse", reparse=rr))
            else:
                m2 = Media(rr)
                if [x.byte_range for x in m2.segments] != [x.byte_range for x in m.segments]:
                    fails.append(dict(describe(c.line, a), what="byte ranges change across write -> parse", law="reparse"))
    return fails


def c08_canon(raw, keys):
    r = C.Resp(raw)
    if r.status != "ok":
        return r.status
    m = Media(r.obs)
    return "ok " + ";".join("%s|%s|%s" % (s.uri, s.byte_range, "-" if s.map is None else s.map[1]) for s in m.segments)


PROPS["C08"] = {
    "build": c08_build, "gate": {"status"}, "canon": c08_canon, "oracle": c08_oracle,
    "nontrivial": lambda c, a: a.startswith("ok") and "#EXT-X-BYTERANGE" in c.payload,
    "rule": "every sequence of up to 4 (thorough 5) segments over 2 URIs x {no range, range with offset, range without offset}; random sequences with lengths/offsets from {0, 1, 2^32, 2^63, 2^64-1} and random values, EXT-X-MAP BYTERANGE with and without offset; repository fixtures; generated playlists; look-alike URIs (case, escape, query, dot segment) at random and all ordered pairs; a MAP with a byte range of the same file in front of every position of every triple of segment kinds; non-trivial = accepted text with at least one EXT-X-BYTERANGE",
    "exhaustive": True,
    "explanation": "theorems: checkRanges_iff / validate_ranges_iff (validator <-> well-chained), resolveRange_eq, built_ranges, ranges_lines (reported ranges = declarative resolution for every accepted line history), not_chained_rejected, resolved_range_text (n@start, re-parses to itself), map_range_verbatim; oracle: independent Python spec per generated sequence + scan of the written text + re-parse comparison",
    "assumptions": ["sums beyond 2^64-1 are outside the property's domain (the code saturates there); such generated cases are only checked for absence of panics"],
}


# ------------------------------------------------------------------------------------------
# C09

NS = 10**9
DUR_MAX = U64 * NS + 999999999


def c09_rule(dur_ns, target_ns, excess_ns):
    rounded = min((dur_ns + 500000000) // NS, U64)
    mx = target_ns if excess_ns is None else min(target_ns + excess_ns, DUR_MAX)
    return rounded * NS <= mx


def dec9(ns):
    return "%d.%09d" % (ns // NS, ns % NS)


def c09_build(ctx):
    rng = ctx.rng
    cases = []
    targets = [0, 1, 2, 10, 5220, 2**24, 2**25 + 1, 2**32, 2**53, U64 - 1, U64]
    allow = [None, 0, 1, 2]
    deltas = [-500000001, -500000000, -499999999, -1, 0, 1, 499999998, 499999999, 500000000, 500000001, 999999999, NS, NS + 499999999, NS + 500000000]
    for t in targets:
        for e in allow:
            bound = t + (e or 0)
            for d in deltas:
                dur = bound * NS + d
                if dur < 0:
                    continue
                if dur // NS <= U64:
                    script = "td %d\n" % (t * NS) + ("ex %d\n" % (e * NS) if e is not None else "") + "push dur=%d uri=61" % dur
                    cases.append(mk("build_media", script, group="builder-boundary", meta={"dur": dur, "t": t * NS, "e": None if e is None else e * NS}))
                # text path: decimal literal with 9 fractional digits, exact below 2^23 s
                if dur < 2**23 * NS:
                    text = "#EXTM3U\n#EXT-X-TARGETDURATION:%d\n#EXTINF:%s,\na.ts\n" % (t, dec9(dur))
                    cases.append(mk("media_builder", text, "-" if e is None else str(e * NS), group="text-boundary", meta={"dur": dur, "t": t * NS, "e": None if e is None else e * NS}))
    # sub-second allowances and targets through the builder
    for _ in range(ctx.n(3000, 60000)):
        t = rng.choice([0, 1, 10, 2**24, 2**32, rng.randint(0, 10**6)]) * NS + rng.choice([0, 0, 1, 499999999, 500000000])
        e = rng.choice([None, 0, 1, 500000000, 999999999, NS, rng.randint(0, 3 * NS)])
        bound = (t + (e or 0)) // NS
        dur = max(0, bound * NS + rng.choice(deltas) + rng.choice([0, 0, NS, -NS]))
        d1 = rng.randint(0, NS)
        script = "td %d\n" % t + ("ex %d\n" % e if e is not None else "") + "push dur=%d uri=61\npush dur=%d uri=62" % (d1, dur)
        cases.append(mk("build_media", script, group="builder-random", meta={"durs": [d1, dur], "t": t, "e": e}))
    # several segments, one of them at a boundary, through text
    for _ in range(ctx.n(1500, 30000)):
        t = rng.choice([1, 2, 10, 30])
        e = rng.choice([None, None, 0, 1])
        bound = t + (e or 0)
        durs = [rng.randint(0, bound * NS + 499999999) for _ in range(rng.randint(1, 5))]
        durs[rng.randrange(len(durs))] = bound * NS + rng.choice(deltas[:11])
        text = "#EXTM3U\n#EXT-X-TARGETDURATION:%d\n" % t + "".join("#EXTINF:%s,\ns%d.ts\n" % (dec9(max(0, d)), i) for i, d in enumerate(durs))
        cases.append(mk("media_builder", text, "-" if e is None else str(e * NS), group="text-multi", meta={"durs": [max(0, d) for d in durs], "t": t * NS, "e": None if e is None else e * NS}))
    # the rule holds for EVERY segment, whatever other tags it carries: the boundary segment dressed with each kind of
    # segment tag (explicit and continuing byte ranges, discontinuity, key, map, date range, program date-time, title)
    dress = ["plain", "range", "range-cont", "disc", "key", "keynone", "map", "daterange", "pdt", "title", "unknown"]
    for _ in range(ctx.n(2500, 50000)):
        t = rng.choice([1, 2, 10, 30])
        e = rng.choice([None, None, 0, 1])
        bound = t + (e or 0)
        n = rng.randint(1, 5)
        durs = [rng.randint(0, bound * NS + 499999999) for _ in range(n)]
        hot = rng.randrange(n)
        durs[hot] = bound * NS + rng.choice(deltas[:11])
        lines = ["#EXTM3U", "#EXT-X-TARGETDURATION:%d" % t]
        prev_ranged = False
        for i, d in enumerate(durs):
            kind = rng.choice(dress)
            uri = "s%d.ts" % i
            if kind == "range-cont" and not prev_ranged:
                kind = "range"
            if kind == "range-cont":
                uri = "r.ts"; lines.append("#EXT-X-BYTERANGE:%d" % rng.randint(1, 1000))
            elif kind == "range":
                uri = "r.ts"; lines.append("#EXT-X-BYTERANGE:%d@%d" % (rng.randint(1, 1000), rng.randint(0, 1000)))
            elif kind == "disc": lines.append("#EXT-X-DISCONTINUITY")
            elif kind == "key": lines.append('#EXT-X-KEY:METHOD=AES-128,URI="k%d"' % i)
            elif kind == "keynone": lines.append("#EXT-X-KEY:METHOD=NONE")
            elif kind == "map": lines.append('#EXT-X-MAP:URI="init%d"' % i)
            elif kind == "daterange": lines.append('#EXT-X-DATERANGE:ID="d%d",START-DATE="2010-02-19T14:54:23.031+08:00"' % i)
            elif kind == "pdt": lines.append("#EXT-X-PROGRAM-DATE-TIME:2010-02-19T14:54:23.031+08:00")
            elif kind == "unknown": lines.append("#EXT-X-FOO:%d" % i)
            prev_ranged = kind in ("range", "range-cont")
            lines.append("#EXTINF:%s,%s" % (dec9(max(0, d)), "t" if kind == "title" else ""))
            lines.append(uri)
        if rng.random() < 0.3: lines.append("#EXT-X-ENDLIST")
        lines = dress_header(rng, "\n".join(lines)).split("\n")
        cases.append(mk("media_builder", "\n".join(lines) + "\n", "-" if e is None else str(e * NS), group="text-dressed",
                        meta={"durs": [max(0, d) for d in durs], "t": t * NS, "e": None if e is None else e * NS}))
    return inf_first(cases, ops=("media_builder",), every=2)


def c09_oracle(ctx, cases, impl, model):
    fails = []
    for c, a in zip(cases, impl):
        r = C.Resp(a)
        if r.status == "panic":
            fails.append(dict(describe(c.line, a), what="panicked", law="no-panic")); continue
        if r.status == "bad-op":
            continue
        durs = c.meta.get("durs") or [c.meta["dur"]]
        t, e = c.meta["t"], c.meta["e"]
        if durs is not None:
            exp = all(c09_rule(d, t, e) for d in durs)
            if exp != (r.status == "ok"):
                fails.append(dict(describe(c.line, a), what="target-duration rule: durations %s ns, target %d ns, allowance %s: expected %s, implementation %s" % (durs, t, e, "accept" if exp else "reject", r.status), law="accept-iff-rule")); continue
        if r.status == "ok":
            m = Media(r.obs)
            for s in m.segments:
                if not c09_rule(s.duration, m.target, m.excess if e is not None else None):
                    fails.append(dict(describe(c.line, a), what="an accepted playlist contains a segment of %d ns with target %d ns, allowance %d ns" % (s.duration, m.target, m.excess), law="ok-implies-rule")); break
    return fails


def c09_canon(raw, keys):
    r = C.Resp(raw)
    if r.status != "ok":
        return r.status
    m = Media(r.obs)
    return "ok %d %d %s" % (m.target, m.excess, [s.duration for s in m.segments])


PROPS["C09"] = {
    "build": c09_build, "gate": {"status"}, "canon": c09_canon, "oracle": c09_oracle,
    "nontrivial": lambda c, a: a.split(" ")[0] in ("ok", "err"),
    "rule": "targets {0,1,2,10,5220,2^24,2^25+1,2^32,2^53,2^64-2,2^64-1} s x allowances {none,0,1,2} s x durations at (target+allowance) s + delta, delta in {-0.500000001 .. +1.5} s in 1 ns steps around every rounding boundary, through the builder (exact Duration) and through text (9-digit literals, below 2^23 s) with the allowance configured on the parsing builder; random sub-second targets/allowances; multi-segment texts with one boundary segment; non-trivial = every case (each decides acceptance)",
    "explanation": "theorems: roundedSecs_spec (nearest second, halves up, integer arithmetic), validateSegments_iff (validator = exactly the three rules), accepted_durations (no accepted line history contains a longer segment), too_long_rejected (a parsed segment breaking the rule rejects the playlist), rule_whole_seconds; oracle: independent integer formula on the generated durations for acceptance, and on every reported duration of every accepted value",
    "assumptions": ["text durations are exact below 2^23 s with <= 9 fractional digits (float emulation validated by the correspondence run); larger magnitudes are exercised through the builder"],
}


# ------------------------------------------------------------------------------------------
# C15

C15_LINES = [
    ("TD", "#EXT-X-TARGETDURATION:10"), ("INF", "#EXTINF:1,"), ("URI", "seg.ts"), ("BR", "#EXT-X-BYTERANGE:10@0"),
    ("DISC", "#EXT-X-DISCONTINUITY"), ("KEY", '#EXT-X-KEY:METHOD=AES-128,URI="k"'), ("MAP", '#EXT-X-MAP:URI="m"'),
    ("PDT", "#EXT-X-PROGRAM-DATE-TIME:2010-02-19T14:54:23.031+08:00"), ("DR", '#EXT-X-DATERANGE:ID="a"'),
    ("MS", "#EXT-X-MEDIA-SEQUENCE:1"), ("DS", "#EXT-X-DISCONTINUITY-SEQUENCE:1"), ("END", "#EXT-X-ENDLIST"),
    ("PT", "#EXT-X-PLAYLIST-TYPE:VOD"), ("IFO", "#EXT-X-I-FRAMES-ONLY"),
    ("MEDIA", '#EXT-X-MEDIA:TYPE=AUDIO,GROUP-ID="g",NAME="n"'), ("SI", "#EXT-X-STREAM-INF:BANDWIDTH=1"),
    ("IFSI", '#EXT-X-I-FRAME-STREAM-INF:BANDWIDTH=1,URI="i"'), ("SD", '#EXT-X-SESSION-DATA:DATA-ID="d",VALUE="v"'),
    ("SK", '#EXT-X-SESSION-KEY:METHOD=AES-128,URI="k"'), ("IND", "#EXT-X-INDEPENDENT-SEGMENTS"),
    ("START", "#EXT-X-START:TIME-OFFSET=1"), ("VER", "#EXT-X-VERSION:3"), ("UNK", "#EXT-X-CUSTOM:1"), ("COM", "# comment"),
]
MEDIA_KINDS = {"TD", "INF", "BR", "DISC", "KEY", "MAP", "PDT", "DR", "MS", "DS", "END", "PT", "IFO"}
MASTER_KINDS = {"MEDIA", "SI", "IFSI", "SD", "SK"}


def c15_items(kinds):
    """item kinds after STREAM-INF pairing; 'DANGLING' if a STREAM-INF has no following line"""
    out, i = [], 0
    while i < len(kinds):
        if kinds[i] == "SI":
            if i + 1 >= len(kinds):
                out.append("DANGLING"); break
            out.append("SI"); i += 2
        else:
            out.append(kinds[i]); i += 1
    return out


def c15_build(ctx):
    cases = []
    maxlen = ctx.n(3, 4)
    for n in range(0, maxlen + 1):
        for combo in itertools.product(C15_LINES, repeat=n):
            kinds = [k for k, _ in combo]
            text = "#EXTM3U\n" + "".join(l + "\n" for _, l in combo)
            for op in ("media", "master"):
                cases.append(mk(op, text, group="exhaustive<=%d" % maxlen, meta={"kinds": kinds, "header": True}))
    # the first line standing on the header line itself (`#EXTM3U #EXT-X-…`): what follows the header is a line like any other
    for n in range(1, 3):
        for combo in itertools.product(C15_LINES, repeat=n):
            kinds = [k for k, _ in combo]
            for sep in (" ", "\t", ""):
                text = "#EXTM3U" + sep + "".join(l + "\n" for _, l in combo)
                for op in ("media", "master"):
                    cases.append(mk(op, text, group="on-the-header-line", meta={"kinds": kinds, "header": True}))
    # something in front of the header: `#EXTM3U` has to be the first line (blank space before it aside)
    body_master = '#EXT-X-STREAM-INF:BANDWIDTH=1\nv.m3u8\n'
    body_media = "#EXT-X-TARGETDURATION:10\n#EXTINF:1,\ns.ts\n"
    for _, l in C15_LINES:
        for body in ("", body_master, body_media):
            for op in ("media", "master"):
                cases.append(mk(op, l + "\n#EXTM3U\n" + body, group="header-not-first", meta={"foreign": "line in front of #EXTM3U"}))
                cases.append(mk(op, l + " #EXTM3U\n" + body, group="header-not-first", meta={"foreign": "text in front of #EXTM3U on its line"}))
    for pre in ("\n", "  ", "\t\n \n", "\r\n"):          # control: blank space in front is trimmed away (status must agree with the model)
        for op, body in (("media", body_media), ("master", body_master)):
            cases.append(mk(op, pre + "#EXTM3U\n" + body, group="blank-before-header"))
    # headerless variants of the short ones
    for n in range(0, 3):
        for combo in itertools.product(C15_LINES, repeat=n):
            text = "".join(l + "\n" for _, l in combo)
            for op in ("media", "master"):
                cases.append(mk(op, text, group="no-header", meta={"kinds": [k for k, _ in combo], "header": False}))
    rng = ctx.rng
    for i in range(ctx.n(800, 8000)):
        t = G.gen_media(rng, features=ctx.features)[0] if i % 2 == 0 else G.gen_master(rng, features=ctx.features)[0]
        for op in ("media", "master"):
            cases.append(mk(op, t, group="generated-cross"))
    for t in corpus_texts():
        for op in ("media", "master"):
            cases.append(mk(op, t, group="corpus-cross"))
    # a tag of the other kind is foreign whatever stands behind its colon - well-formed, another spelling, or malformed
    vals = ["", "x", "0", "1", "-1", "1.5", "VOD", "vod", "EVENT", "LIVE", "VOD,EVENT", "METHOD=NONE", "METHOD=FOO", 'URI="u"', "YES", "1,2", "1,t", " 1", "10@0",
            'ID="a"', 'TYPE=AUDIO,GROUP-ID="g",NAME="n"', "BANDWIDTH=1", 'BANDWIDTH=1,URI="u"', 'DATA-ID="d",VALUE="v"', 'METHOD=AES-128,URI="k"', "TIME-OFFSET=1",
            "2010-02-19T14:54:23.031+08:00", "\u00e9", ":", "="]
    media_tags = ["#EXT-X-TARGETDURATION", "#EXT-X-MEDIA-SEQUENCE", "#EXT-X-DISCONTINUITY-SEQUENCE", "#EXT-X-PLAYLIST-TYPE", "#EXTINF", "#EXT-X-BYTERANGE", "#EXT-X-KEY",
                  "#EXT-X-MAP", "#EXT-X-PROGRAM-DATE-TIME", "#EXT-X-DATERANGE"]
    master_tags = ["#EXT-X-MEDIA", "#EXT-X-STREAM-INF", "#EXT-X-I-FRAME-STREAM-INF", "#EXT-X-SESSION-DATA", "#EXT-X-SESSION-KEY"]
    good_master = '#EXT-X-STREAM-INF:BANDWIDTH=1\nv.m3u8\n'
    good_media = "#EXT-X-TARGETDURATION:10\n#EXTINF:1,\ns.ts\n"
    for tag in media_tags:
        for v in vals:
            line = tag + ":" + v + "\n"
            for text in ("#EXTM3U\n" + line, "#EXTM3U\n" + good_master + line, "#EXTM3U\n" + line + good_master):
                cases.append(mk("master", text, group="foreign-tag-any-value", meta={"foreign": "media-tag"}))
    # … and in every well-formed shape it takes in generated playlists (all attribute subsets): each distinct tag line of generated
    # media playlists inside a master playlist, each distinct tag line of generated master playlists inside a media playlist
    seen_lines = set()
    for i in range(ctx.n(300, 3000)):
        for l in G.gen_media(rng, key_weight=0.5, features=ctx.features)[0].split("\n"):
            l = l.strip()
            if l.startswith(tuple(media_tags)) and l not in seen_lines and not l.startswith("#EXT-X-MEDIA:"):
                seen_lines.add(l)
                cases.append(mk("master", "#EXTM3U\n" + (good_master if i % 2 else "") + l + "\n", group="foreign-tag-every-shape", meta={"foreign": "media-tag"}))
        ls = [x.strip() for x in G.gen_master(rng, features=ctx.features)[0].split("\n")]
        for j, l in enumerate(ls):
            if l.startswith(tuple(t + ":" for t in master_tags)) and l not in seen_lines:
                seen_lines.add(l)
                extra = (ls[j + 1] + "\n") if l.startswith("#EXT-X-STREAM-INF:") and j + 1 < len(ls) else ""
                cases.append(mk("media", "#EXTM3U\n" + good_media + l + "\n" + extra, group="foreign-tag-every-shape", meta={"foreign": "master-tag"}))
    # a foreign tag stays in tag position when white space - in the sense of `str::trim`, the Unicode blanks included - stands in
    # front of it or behind it on its line (a line is classified after trimming): behind a valid body, in the middle of it
    # (inside an item), and as the only content
    blanks = [" ", "\t", "\u00a0", "\u3000", "\u2003", "\u0085", "\x0b", "\x0c", "\u2028", "\u1680", "\u205f", " \u00a0"]
    for kind, l in C15_LINES:
        if kind in ("COM", "UNK", "VER", "IND", "START"):
            continue
        for b in blanks:
            for dressed in (b + l, l + b, b + l + b):
                if kind in MEDIA_KINDS or kind == "URI":
                    what = "bare URI line" if kind == "URI" else "media-tag"
                    for text in ("#EXTM3U\n" + good_master + dressed + "\nx\n", "#EXTM3U\n" + dressed + "\n" + good_master, "#EXTM3U\n#EXT-X-STREAM-INF:BANDWIDTH=1\nv.m3u8\n" + dressed + "\n#EXT-X-FOO\n"):
                        if kind == "URI" and text.startswith("#EXTM3U\n#EXT-X-STREAM-INF:BANDWIDTH=1\nv.m3u8\n" + dressed) is False and text.count("#EXT-X-STREAM-INF") == 1 and text.index(dressed) < text.index("#EXT-X-STREAM-INF"):
                            pass
                        cases.append(mk("master", text, group="foreign-tag-blank-edges", meta={"foreign": what}))
                if kind in MASTER_KINDS:
                    tail = "\nu.m3u8\n" if kind == "SI" else "\n"
                    for text in ("#EXTM3U\n" + good_media + dressed + tail, "#EXTM3U\n#EXT-X-TARGETDURATION:10\n#EXTINF:1,\n" + dressed + tail + "s.ts\n",
                                 "#EXTM3U\n#EXT-X-TARGETDURATION:10\n" + dressed + tail + "#EXTINF:1,\ns.ts\n"):
                        cases.append(mk("media", text, group="foreign-tag-blank-edges", meta={"foreign": "master-tag"}))
    for tag in master_tags:
        for v in vals:
            line = tag + ":" + v + "\n" + ("u.m3u8\n" if tag == "#EXT-X-STREAM-INF" else "")
            for text in ("#EXTM3U\n" + good_media + line, "#EXTM3U\n" + line + good_media):
                cases.append(mk("media", text, group="foreign-tag-any-value", meta={"foreign": "master-tag"}))
    return cases


def c15_far(ctx):
    """a foreign line however FAR into the text it stands: behind more lines than a 16-bit, a 20-bit or a decimal-million counter
    or cap would hold (a parser that stops reading after some number of lines accepts what stands behind). Implementation only:
    the Lean driver is not built for texts of millions of lines (its unknown-tag list is quadratic, deep recursion overflows its
    stack), and the expectation needs no model - the foreign line is there by construction."""
    good_master = '#EXT-X-STREAM-INF:BANDWIDTH=1\nv.m3u8\n'
    good_media = "#EXT-X-TARGETDURATION:10\n#EXTINF:1,\ns.ts\n"
    cases = []
    for nfill in ([70000, (1 << 20) + 50] if ctx.quick else [70000, 1000050, (1 << 20) + 50, (1 << 21) + 50, (1 << 22) + 50]):
        for fill in ("#c\n", "#EXT-X-VERSION:3\n", "#EXT-X-FOO:1\n"):
            cases.append(mk("master", "#EXTM3U\n" + good_master + fill * nfill + "#EXTINF:1,\ns.ts\n", group="foreign-tag-far-away", meta={"foreign": "media-tag"}))
            cases.append(mk("master", "#EXTM3U\n" + good_master + fill * nfill + "s.ts\n", group="foreign-tag-far-away", meta={"foreign": "bare URI line"}))
            cases.append(mk("media", "#EXTM3U\n" + good_media + fill * nfill + good_master, group="foreign-tag-far-away", meta={"foreign": "master-tag"}))
        cases.append(mk("media", "#EXTM3U\n#EXT-X-TARGETDURATION:10\n" + "#EXTINF:1,\ns.ts\n" * (nfill // 2) + '#EXT-X-MEDIA:TYPE=AUDIO,GROUP-ID="g",NAME="n"\n',
                        group="foreign-tag-far-away", meta={"foreign": "master-tag"}))
        cases.append(mk("master", "#EXTM3U\n" + good_master * (nfill // 2) + "#EXT-X-TARGETDURATION:10\n", group="foreign-tag-far-away", meta={"foreign": "media-tag"}))
    return cases


def c15_oracle(ctx, cases, impl, model):
    fails = []
    by_text = {}
    far = c15_far(ctx)
    t0 = time.time()
    for c, a in zip(far, C.run_many(C.IMPL, [c.line for c in far], jobs=8)):
        st = a.split(" ", 1)[0]
        if st != "err":
            what = "%s parser accepted a text with a %s in tag position, %d lines into the text" % (c.op, c.meta["foreign"], c.payload.count("\n")) if st == "ok" else \
                "%s parser did not return on a text of %d lines (%s)" % (c.op, c.payload.count("\n"), st)
            fails.append({"op": c.op, "payload": c.payload[:200] + " … " + c.payload[-200:], "implementation": a[:200], "what": what, "law": c.op + "-rejects", "lines": c.payload.count("\n")})
    ctx.features["far-away foreign lines (implementation only)"] = len(far)
    for c, a in zip(cases, impl):
        st = a.split(" ", 1)[0]
        if st == "panic":
            fails.append(dict(describe(c.line, a), what="parser panicked", law="no-panic")); continue
        by_text.setdefault(c.line.split("\t")[1], {})[c.op] = (c, a, st)
        if "foreign" in c.meta and st == "ok":
            fails.append(dict(describe(c.line, a), what="%s parser accepted a text with a %s in tag position" % (c.op, c.meta["foreign"]), law=c.op + "-rejects"))
        kinds = c.meta.get("kinds")
        if kinds is None:
            continue
        items = c15_items(kinds)
        if c.op == "master":
            must_reject = (not c.meta["header"]) or "DANGLING" in items or any(k in MEDIA_KINDS or k == "URI" for k in items)
            if must_reject and st == "ok":
                fails.append(dict(describe(c.line, a), what="master parser accepted a text with items %s (media tag, bare URI, dangling STREAM-INF or missing header)" % items, law="master-rejects"))
        else:
            must_reject = (not c.meta["header"]) or "DANGLING" in items or any(k in MASTER_KINDS for k in items) or "TD" not in items
            if must_reject and st == "ok":
                fails.append(dict(describe(c.line, a), what="media parser accepted a text with items %s (master tag, missing TARGETDURATION, dangling STREAM-INF or missing header)" % items, law="media-rejects"))
    for h, d in by_text.items():
        if len(d) == 2 and d["media"][2] == "ok" and d["master"][2] == "ok":
            c, a, _ = d["media"]
            fails.append(dict(describe(c.line, a), what="a text is accepted both as a master and as a media playlist", law="never-both"))
    return fails


PROPS["C15"] = {
    "build": c15_build, "gate": {"status"}, "oracle": c15_oracle,
    "nontrivial": lambda c, a: len(c.meta.get("kinds", [1])) >= 1,
    "rule": "every sequence of up to 3 (thorough 4) lines drawn from one representative line per tag kind (24 representatives incl. URI, comment, unknown tag, EXT-X-VERSION) behind the #EXTM3U header, fed to BOTH parsers; all sequences up to length 2 without the header; generated media and master playlists and the repository fixtures fed to the other parser; every media value-tag prefix with 30 values behind the colon in a master playlist and the master tags likewise in a media playlist; the first line of every sequence of length 1-2 on the header line itself; non-trivial = non-empty sequence",
    "exhaustive": True,
    "explanation": "theorems: never_both (for every string), master_rejects_media_tags, media_rejects_master_tags, header_required, media_has_target_duration, masterStep_err_iff / mediaStep_foreign + tables_match over the tables regenerated from the UnexpectedTag arms, streaminf_pairs, streaminf_trailing; oracle: Python computes the item kinds (STREAM-INF pairing) and the property's rejection rules",
    "assumptions": ["a builder pre-configured with a target duration (MediaPlaylistBuilder::parse) can accept a text without EXT-X-TARGETDURATION; the property concerns the TryFrom/FromStr entry points"],
}


# ------------------------------------------------------------------------------------------
# C16

class LiveSeg:
    def __init__(self, rng, i):
        self.uri = rng.choice(["a.ts", "b.ts", "c%d.ts" % i])
        self.dur = rng.choice(["1", "2.5", "9.009", "10"])
        self.keys = []          # key events before this segment
        for _ in range(rng.choice([0, 0, 0, 1, 1, 2])):
            if rng.random() < 0.15:
                self.keys.append(None)
            else:
                # formats that differ in letter case only are different formats (compared as written)
                fmt = rng.choice([None, None, "identity", "f2", "F2", "com.apple.streamingkeydelivery", "COM.APPLE.STREAMINGKEYDELIVERY", "Identity"])
                iv = ("%032x" % rng.getrandbits(128)) if rng.random() < 0.3 else None
                self.keys.append((rng.choice(["AES-128", "AES-128", "SAMPLE-AES"]), rng.choice(["k1", "k2"]), iv, fmt))
        self.range = rng.choice(["N", "N", "E", "I"])
        self.len = rng.randint(1, 1000)
        self.off = rng.randint(0, 10**6)
        self.disc = rng.random() < 0.1


def key_line(k):
    if k is None:
        return "#EXT-X-KEY:METHOD=NONE"
    method, uri, iv, fmt = k
    l = '#EXT-X-KEY:METHOD=%s,URI="%s"' % (method, uri)
    if iv:
        l += ",IV=0x" + iv
    if fmt is not None:
        l += ',KEYFORMAT="%s"' % fmt
    return l


NF = {"identity": "identity", None: "identity", "f2": "other:f2", "com.apple.streamingkeydelivery": "kfF", "F2": "other:F2",
      "COM.APPLE.STREAMINGKEYDELIVERY": "other:COM.APPLE.STREAMINGKEYDELIVERY", "Identity": "other:Identity"}


def live_history(rng, n):
    """segments + per segment the full-history expectation: keys in effect (as restatable list), resolved range"""
    segs = []
    cur, marker = {}, False
    prev = None
    for i in range(n):
        s = LiveSeg(rng, i)
        for k in s.keys:
            if k is None:
                cur, marker = {}, True
            else:
                if marker:
                    cur, marker = {}, False
                cur = dict(cur); cur[NF[k[3]]] = k
        s.in_effect = None if marker else list(cur.values())
        if s.range == "I" and (prev is None or prev.resolved is None or prev.uri != s.uri):
            s.range = "E"
        if s.range == "N":
            s.resolved = None
        elif s.range == "E":
            s.resolved = (s.off, s.off + s.len)
        else:
            s.resolved = (prev.resolved[1], prev.resolved[1] + s.len)
        prev = s
        segs.append(s)
    return segs


def live_render(segs, base, k, n, end=False, rng=None):
    """the server's playlist for the window [k, n): media sequence base+k, tags in effect restated. With `rng`, the EXTINF line
    of each item stands at a random place among the item's tags (each window may choose differently: the order of a segment's
    tags means nothing)"""
    lines = ["#EXTM3U", "#EXT-X-TARGETDURATION:10", "#EXT-X-MEDIA-SEQUENCE:%d" % (base + k)]
    for i in range(k, n):
        s = segs[i]
        item_at = len(lines)
        if i == k:
            # restate what is in effect at the first segment of the window
            if s.in_effect is None:
                lines.append(key_line(None))
            else:
                lines += [key_line(x) for x in s.in_effect]
            if s.resolved is not None:
                lines.append("#EXT-X-BYTERANGE:%d@%d" % (s.resolved[1] - s.resolved[0], s.resolved[0]))
        else:
            lines += [key_line(x) for x in s.keys]
            if s.range == "E":
                lines.append("#EXT-X-BYTERANGE:%d@%d" % (s.len, s.off))
            elif s.range == "I":
                lines.append("#EXT-X-BYTERANGE:%d" % s.len)
        if s.disc:
            lines.append("#EXT-X-DISCONTINUITY")
        lines.insert(rng.randint(item_at, len(lines)) if rng is not None else len(lines), "#EXTINF:%s," % s.dur)
        lines.append(s.uri)
    if end:
        lines.append("#EXT-X-ENDLIST")
    return "\n".join(lines) + "\n"


def seg_identity(s):
    """what C16 says must be stable: number, URI, byte range, key set with effective IVs"""
    ks = sorted((repr(key_ident(k)), iv_of(k)) if k != "K0" else ("K0",) for k in s.keys)
    return (s.number, s.uri, s.byte_range, tuple(ks))


SEGMENT_TAG_PREFIXES = ("#EXTINF", "#EXT-X-BYTERANGE", "#EXT-X-DISCONTINUITY", "#EXT-X-KEY", "#EXT-X-MAP", "#EXT-X-PROGRAM-DATE-TIME", "#EXT-X-DATERANGE")


def c16_open(lines):
    """is an item open at the end of these lines: a segment tag seen since the last URI line (RFC 8216 section 4.3.2, not the model)"""
    op = False
    for l in lines:
        l = l.strip()
        if not l:
            continue
        if l.startswith(SEGMENT_TAG_PREFIXES) and not l.startswith("#EXT-X-DISCONTINUITY-SEQUENCE"):
            nxt = l[len("#EXT-X-DISCONTINUITY"):len("#EXT-X-DISCONTINUITY") + 1]
            if l.startswith("#EXT-X-DISCONTINUITY") and nxt not in ("",):
                continue            # a look-alike such as #EXT-X-DISCONTINUITYX is an unknown tag
            op = True
        elif not l.startswith("#"):
            op = False
    return op


def c16_build(ctx):
    rng = ctx.rng
    cases = []
    nplay = ctx.n(300, 3000)
    for pi in range(nplay):
        n = rng.randint(2, 7)
        base = rng.choice([0, 1, 2680, 2**32, U64 - 20])
        segs = live_history(rng, n)
        gid = "live%d" % pi
        # every window [k, m): slide and append chains
        for k in range(0, n):
            for m in range(k + 1, n + 1):
                cases.append(mk("media", live_render(segs, base, k, m, rng=(rng if pi % 2 else None)), group="window", meta={"live": gid, "k": k, "m": m, "base": base}))
    # every line-boundary cut of generated playlists
    for pi in range(ctx.n(300, 3000)):
        text = G.gen_media(rng, max_segments=5, features=ctx.features)[0]
        lines = text.split("\n")
        gid = "cut%d" % pi
        cases.append(mk("media", text, group="cut-full", meta={"cut": gid, "at": None}))
        for i in range(1, len(lines)):
            cases.append(mk("media", "\n".join(lines[:i]) + "\n", group="cut", meta={"cut": gid, "at": i, "last": lines[i - 1].strip(), "open": c16_open(lines[:i])}))
        # the same with playlist-level tags, unknown tags and comments standing INSIDE an item (between a segment's tags and its URI
        # line, where RFC 8216 allows them): an item stays open across them
        inside = [j for j in range(1, len(lines)) if c16_open(lines[:j])]
        if inside:
            l2 = list(lines)
            for j in sorted(rng.sample(inside, min(len(inside), rng.randint(1, 2))), reverse=True):
                l2.insert(j, rng.choice(["#EXT-X-ENDLIST", "#EXT-X-ENDLIST", "#EXT-X-PLAYLIST-TYPE:VOD", "#EXT-X-VERSION:7", "#EXT-X-FOO:1", "# comment", "#EXT-X-START:TIME-OFFSET=1",
                                         "#EXT-X-I-FRAMES-ONLY", "#EXT-X-DISCONTINUITY-SEQUENCE-NOT", ""]))
            gid2 = gid + "i"
            cases.append(mk("media", "\n".join(l2), group="cut-full", meta={"cut": gid2, "at": None}))
            for i in range(1, len(l2)):
                cases.append(mk("media", "\n".join(l2[:i]) + "\n", group="cut-inside-item", meta={"cut": gid2, "at": i, "last": l2[i - 1].strip(), "open": c16_open(l2[:i])}))
    # a tag that RESTATES what is already in effect (the same key again, the same map again, NONE twice) opens an item like any
    # other segment tag: every cut of texts where each such tag stands a second time - directly behind its first occurrence, behind
    # a complete segment, and as the last line
    K = ['#EXT-X-KEY:METHOD=AES-128,URI="k"', '#EXT-X-KEY:METHOD=SAMPLE-AES,URI="k",KEYFORMAT="f",IV=0x00000000000000000000000000000001', "#EXT-X-KEY:METHOD=NONE",
         '#EXT-X-MAP:URI="i"', '#EXT-X-MAP:URI="i",BYTERANGE="5@0"', "#EXT-X-DISCONTINUITY", "#EXT-X-PROGRAM-DATE-TIME:2010-02-19T14:54:23.031+08:00",
         '#EXT-X-DATERANGE:ID="d",START-DATE="2010-02-19T14:54:23.031+08:00"', "#EXT-X-BYTERANGE:5@0"]
    ri = 0
    for t1 in K:
        for shape in (["H", "T", "T", "S", "T"], ["H", "T", "S", "T", "S", "T"], ["H", "O", "T", "S", "O", "T", "T", "S"], ["H", "T", "S", "S", "T"]):
            for other in ('#EXT-X-KEY:METHOD=AES-128,URI="o",KEYFORMAT="g"', "#EXT-X-DISCONTINUITY"):
                if "O" not in shape and other != "#EXT-X-DISCONTINUITY":
                    continue
                ls, ns = [], 0
                for x in shape:
                    if x == "H": ls += ["#EXTM3U", "#EXT-X-TARGETDURATION:10"]
                    elif x == "T": ls.append(t1)
                    elif x == "O": ls.append(other)
                    else:
                        ls += ["#EXTINF:1,", "s%d" % ns]; ns += 1
                ri += 1
                gid = "rest%d" % ri
                cases.append(mk("media", "\n".join(ls) + "\n", group="cut-full", meta={"cut": gid, "at": None}))
                for i in range(1, len(ls)):
                    cases.append(mk("media", "\n".join(ls[:i]) + "\n", group="cut-behind-restated-tag", meta={"cut": gid, "at": i, "last": ls[i - 1].strip(), "open": c16_open(ls[:i])}))
    # master playlists cut after a STREAM-INF
    for pi in range(ctx.n(100, 1000)):
        text = G.gen_master(rng, features=ctx.features)[0]
        lines = text.split("\n")
        for i in range(1, len(lines)):
            if lines[i - 1].strip().startswith("#EXT-X-STREAM-INF:"):
                cases.append(mk("master", "\n".join(lines[:i]) + "\n", group="cut-master", meta={"dangling": True}))
                cases.append(mk("media", "#EXTM3U\n#EXT-X-TARGETDURATION:10\n" + lines[i - 1] + "\n", group="cut-master", meta={"dangling": True}))
    return cases


def c16_oracle(ctx, cases, impl, model):
    fails = []
    windows, cuts = {}, {}
    for c, a in zip(cases, impl):
        r = C.Resp(a)
        if r.status == "panic":
            fails.append(dict(describe(c.line, a), what="parser panicked", law="no-panic")); continue
        if c.meta.get("dangling"):
            if r.status == "ok":
                fails.append(dict(describe(c.line, a), what="a text cut right after EXT-X-STREAM-INF was accepted (the variant is silently dropped)", law="dangling-stream-inf"))
            continue
        if "live" in c.meta:
            windows.setdefault(c.meta["live"], []).append((c, a, r))
        elif "cut" in c.meta:
            cuts.setdefault(c.meta["cut"], []).append((c, a, r))
    for gid, ws in windows.items():
        # identity of segment index i (in the full history) as reported by each window
        seen = {}
        for c, a, r in ws:
            if r.status != "ok":
                fails.append(dict(describe(c.line, a), what="a window [%d,%d) of a valid live playlist was rejected" % (c.meta["k"], c.meta["m"]), law="window-accepted")); break
            m = Media(r.obs)
            if len(m.segments) != c.meta["m"] - c.meta["k"]:
                fails.append(dict(describe(c.line, a), what="window [%d,%d) reports %d segments" % (c.meta["k"], c.meta["m"], len(m.segments)), law="window-count")); break
            bad = False
            for j, s in enumerate(m.segments):
                i = c.meta["k"] + j
                ident = seg_identity(s)
                if ident[0] != c.meta["base"] + i:
                    fails.append(dict(describe(c.line, a), what="segment %d of the history is numbered %d in window [%d,%d), expected %d" % (i, ident[0], c.meta["k"], c.meta["m"], c.meta["base"] + i), law="slide-number")); bad = True; break
                if i in seen and seen[i][0] != ident:
                    d = describe(c.line, a)
                    d["context_lines"] = [seen[i][1].line]
                    fails.append(dict(d, what="segment %d of the history changes identity between windows: %s vs %s" % (i, seen[i][0], ident), law="slide-identity")); bad = True; break
                seen.setdefault(i, (ident, c))
            if bad:
                break
    for gid, cs in cuts.items():
        # whatever the whole text is: a cut with an item still open is never accepted
        for c, a, r in cs:
            if c.meta["at"] is not None and r.status == "ok" and c.meta.get("open"):
                fails.append(dict(describe(c.line, a), what="a text cut inside an item (after %r, segment tags pending) was accepted" % c.meta["last"][:40], law="cut-inside-item"))
        full = [x for x in cs if x[0].meta["at"] is None]
        if not full or full[0][2].status != "ok":
            continue
        fsegs = [s.node for s in Media(full[0][2].obs).segments]
        fobs = [repr(x) for x in fsegs]
        for c, a, r in cs:
            if c.meta["at"] is None:
                continue
            last = c.meta["last"]
            if r.status == "ok":
                if last.startswith(SEGMENT_TAG_PREFIXES) and not last.startswith("#EXT-X-DISCONTINUITY-SEQUENCE"):
                    fails.append(dict(describe(c.line, a), what="a text cut right after the segment tag %r was accepted" % last[:40], law="cut-inside-item")); continue
                if c.meta.get("open"):
                    continue            # reported above
                segs = [repr(s.node) for s in Media(r.obs).segments]
                if segs != fobs[:len(segs)]:
                    # a MEDIA-SEQUENCE line behind the cut legitimately renumbers: compare only then
                    tail = "\n".join(full[0][0].payload.split("\n")[c.meta["at"]:])
                    if "#EXT-X-MEDIA-SEQUENCE" in tail:
                        continue
                    d = describe(c.line, a)
                    d["context_lines"] = [full[0][0].line]
                    fails.append(dict(d, what="the segments of a text cut at line %d are not a prefix of the segments of the full text" % c.meta["at"], law="cut-prefix"))
    return fails


def c16_canon(raw, keys):
    r = C.Resp(raw)
    if r.status != "ok":
        return r.status
    if not r.obs.startswith("M{"):
        return "ok"
    m = Media(r.obs)
    return "ok " + ";".join(repr(seg_identity(s)) for s in m.segments)


PROPS["C16"] = {
    "build": c16_build, "gate": {"status"}, "canon": c16_canon, "oracle": c16_oracle,
    "nontrivial": lambda c, a: a.startswith("ok") and ("live" in c.meta or "cut" in c.meta),
    "rule": "live histories of 2-7 segments (key events over 4 formats incl. NONE and explicit IVs, byte ranges none/explicit/implicit, media sequences up to 2^64-21): EVERY window [k,m) is rendered the way a server would (media sequence + k, keys in effect and the first byte range restated) - this covers append (m grows), slide (k grows) and every chain of both; generated playlists cut at EVERY line boundary; master playlists and media texts cut right after EXT-X-STREAM-INF; generated playlists with playlist-level tags, unknown tags, comments and blank lines inserted INSIDE items, cut at every line (an item stays open across them); non-trivial = accepted window or cut",
    "explanation": "theorems: append_stable (segments of an accepted history are a prefix of those of any accepted extension without a new MEDIA-SEQUENCE), built_prefix, built_functional, cut_inside_item_rejected, trailing_error_item_rejected, built_shift / built_drop / built_prev_irrelevant / slide_stable (dropping k segments and raising the media sequence by k leaves numbers, URIs, ranges, keys, IVs of the rest unchanged); oracle: per history, the identity (number, URI, resolved range, key set with effective IVs) of each segment must be the same in every window that contains it; per cut, rejected or prefix",
    "assumptions": ["an appended or cut-away EXT-X-MEDIA-SEQUENCE line legitimately renumbers (the last one wins): excluded as in the theorem's hypothesis", "EXT-X-MAP is attached to the next segment only (library design) and is not part of the slide oracle"],
}


# ------------------------------------------------------------------------------------------
# C05

TYPE_OPS = ["ByteRange", "Channels", "ClosedCaptions", "Codecs", "DecryptionKey", "EncryptionMethod", "Float", "UFloat", "HdcpLevel",
            "InStreamId", "InitializationVector", "KeyFormat", "KeyFormatVersions", "MediaType", "PlaylistType", "ProtocolVersion",
            "Resolution", "StreamData", "Value"]
TAG_OPS = ["ExtXVersion", "ExtInf", "ExtXByteRange", "ExtXKey", "ExtXMap", "ExtXProgramDateTime", "ExtXDateRange", "ExtXMedia",
           "ExtXSessionData", "ExtXSessionKey", "ExtXStart", "VariantStream"]
TYPE_SEEDS = {
    "ByteRange": ["10@5", "10", "0@0"], "Channels": ["6", "16/JOC"], "ClosedCaptions": ["NONE", '"cc1"'], "Codecs": ["avc1.4d401e,mp4a.40.2"],
    "DecryptionKey": ['METHOD=AES-128,URI="k",IV=0x000102030405060708090a0b0c0d0e0f,KEYFORMAT="identity",KEYFORMATVERSIONS="1/2/5"'],
    "EncryptionMethod": ["AES-128", "SAMPLE-AES"], "Float": ["1.5", "-0.25", "1e3"], "UFloat": ["29.97", "0"], "HdcpLevel": ["TYPE-0", "NONE"],
    "InStreamId": ["CC1", "SERVICE63"], "InitializationVector": ["0x000102030405060708090a0b0c0d0e0f"], "KeyFormat": ['"identity"', '"x"'],
    "KeyFormatVersions": ['"1/2/5"', '"1"'], "MediaType": ["AUDIO", "CLOSED-CAPTIONS"], "PlaylistType": ["#EXT-X-PLAYLIST-TYPE:VOD"],
    "ProtocolVersion": ["7", " 3 "], "Resolution": ["1920x1080"], "StreamData": ['BANDWIDTH=1,AVERAGE-BANDWIDTH=2,CODECS="a,b",RESOLUTION=1x2,HDCP-LEVEL=NONE,VIDEO="v"'],
    "Value": ['"s"', "0xAB", "1.5"],
}
TAG_SEEDS = {
    "ExtXVersion": ["#EXT-X-VERSION:3"], "ExtInf": ["#EXTINF:9.009,title", "#EXTINF:10,"], "ExtXByteRange": ["#EXT-X-BYTERANGE:10@5"],
    "ExtXKey": ['#EXT-X-KEY:METHOD=AES-128,URI="k",IV=0x000102030405060708090a0b0c0d0e0f', "#EXT-X-KEY:METHOD=NONE"],
    "ExtXMap": ['#EXT-X-MAP:URI="init.mp4",BYTERANGE="10@5"'], "ExtXProgramDateTime": ["#EXT-X-PROGRAM-DATE-TIME:2010-02-19T14:54:23.031+08:00"],
    "ExtXDateRange": ['#EXT-X-DATERANGE:ID="a",CLASS="c",START-DATE="2010",END-DATE="2011",DURATION=60.1,PLANNED-DURATION=59.9,SCTE35-CMD=0xFC,X-A="s",X-B=0xAB,X-C=1.5',
                      '#EXT-X-DATERANGE:ID="a",CLASS="c",END-ON-NEXT=YES'],
    "ExtXMedia": ['#EXT-X-MEDIA:TYPE=AUDIO,URI="u",GROUP-ID="g",LANGUAGE="en",ASSOC-LANGUAGE="de",NAME="n",DEFAULT=YES,AUTOSELECT=YES,CHARACTERISTICS="c",CHANNELS="6"',
                  '#EXT-X-MEDIA:TYPE=CLOSED-CAPTIONS,GROUP-ID="g",NAME="n",INSTREAM-ID="SERVICE12"'],
    "ExtXSessionData": ['#EXT-X-SESSION-DATA:DATA-ID="d",VALUE="v",LANGUAGE="en"'], "ExtXSessionKey": ['#EXT-X-SESSION-KEY:METHOD=AES-128,URI="k"'],
    "ExtXStart": ["#EXT-X-START:TIME-OFFSET=-1.5,PRECISE=YES"],
    "VariantStream": ['#EXT-X-STREAM-INF:BANDWIDTH=1,FRAME-RATE=29.97,AUDIO="a",SUBTITLES="s",CLOSED-CAPTIONS=NONE,CODECS="x,y",RESOLUTION=1x2\nuri', '#EXT-X-I-FRAME-STREAM-INF:BANDWIDTH=1,URI="u"'],
}
DEFECT_WITNESSES = [
    ("tag:ExtXMap", '#EXT-X-MAP:URI="'), ("tag:ExtInf", "#EXTINF:-1,"), ("tag:ExtInf", "#EXTINF:nan,"), ("tag:ExtInf", "#EXTINF:1e400,"),
    ("tag:ExtXDateRange", '#EXT-X-DATERANGE:ID="a",DURATION=-1'), ("tag:ExtXDateRange", '#EXT-X-DATERANGE:ID="a",PLANNED-DURATION=-1'),
    ("type:ByteRange", "18446744073709551615@1"), ("tag:ExtXByteRange", "#EXT-X-BYTERANGE:18446744073709551615@1"),
    ("media", "#EXTM3U\n#EXT-X-TARGETDURATION:10\n#EXT-X-MEDIA-SEQUENCE:18446744073709551615\n#EXTINF:1,\na\n#EXTINF:1,\nb\n"),
    ("unquote", '"'), ("attrs", '="'), ("attrs", "é="), ("attrs", "=,"), ("attrs", "a"),
]


def dress_value(v):
    """spellings next to a value as written: in / out of quotes, stray quotes, other case, signs, leading zeros, a fraction, blanks,
    separators a number parser might swallow - whatever the attribute's type. The model decides what each means."""
    bare = v[1:-1] if len(v) >= 2 and v[0] == '"' and v[-1] == '"' else v
    out = [bare, '"%s"' % bare, '"' + bare, bare + '"', bare[:1] + '"' + bare[1:], "'%s'" % bare, '""%s""' % bare, '"%s""' % bare,
           bare.lower(), bare.upper(), bare.title(), bare + bare, bare[:-1], "", '""', '" %s"' % bare, '"%s "' % bare]
    if re.fullmatch(r"-?[0-9][0-9.x@/]*", bare):
        out += ["+" + bare, "-" + bare, "0" + bare, "00" + bare, bare + ".0", bare + ".", "." + bare, bare + "e0", bare + "E1", "0x" + bare, bare + "_0", "1_" + bare,
                bare.replace("x", "X"), bare.replace("@", "@+"), bare.replace("@", "@0"), bare.replace("/", "//"), bare + "/", bare + "@", bare + "x",
                "\u0661" + bare[1:], "\uff11" + bare[1:], bare + "\u00a0"]
        if bare != v:
            out += ['"%s"' % y for y in out[17:]]
    res, seen = [], {v}
    for x in out:
        if x not in seen and "\n" not in x:
            seen.add(x); res.append(x)
    return res


def dressed_value_cases():
    """every attribute value (and the value of every one-value tag) of one representative line per tag, in each spelling of
    `dress_value`: (op, text)"""
    lines = [(n, t) for n, ts in TAG_SEEDS.items() for t in ts]
    lines += [("ExtXKey", '#EXT-X-KEY:METHOD=SAMPLE-AES,URI="k",KEYFORMAT="f",KEYFORMATVERSIONS="1/2"'), ("ExtXSessionData", '#EXT-X-SESSION-DATA:DATA-ID="d",URI="u"'),
              ("ExtXMedia", '#EXT-X-MEDIA:TYPE=SUBTITLES,URI="u",GROUP-ID="g",NAME="n",FORCED=YES,AUTOSELECT=YES'),
              ("VariantStream", '#EXT-X-STREAM-INF:BANDWIDTH=2,AVERAGE-BANDWIDTH=1,HDCP-LEVEL=TYPE-0,VIDEO="v"\nuri'),
              ("VariantStream", '#EXT-X-I-FRAME-STREAM-INF:BANDWIDTH=2,AVERAGE-BANDWIDTH=1,URI="u",RESOLUTION=1x2,CODECS="x",HDCP-LEVEL=NONE,VIDEO="v"')]
    out = []
    for name, line in lines:
        first, _, rest = line.partition("\n")
        head, _, body = first.partition(":")
        tail = ("\n" + rest) if rest else ""
        pairs = c12_split_attrs(body) if "=" in body else None
        if pairs is None or name in ("ExtInf", "ExtXProgramDateTime"):
            for x in dress_value(body.split(",")[0]):
                out.append(("tag:" + name, head + ":" + x + ("," + body.split(",", 1)[1] if "," in body else "") + tail))
            continue
        for i, (k, v) in enumerate(pairs):
            for x in dress_value(v):
                q = pairs[:i] + [(k, x)] + pairs[i + 1:]
                out.append(("tag:" + name, head + ":" + ",".join("%s=%s" % kv for kv in q) + tail))
            # the attribute once more with another (valid-looking or empty) value: in front, directly behind, at the end
            alts = [v + "0" if v[-1:].isdigit() else (v[:-1] + 'z"' if v.endswith('"') and len(v) > 2 else v), '""' if v.startswith('"') else "NONE", v]
            for x in dict.fromkeys(alts):
                for q in ([(k, x)] + pairs, pairs[:i + 1] + [(k, x)] + pairs[i + 1:], pairs + [(k, x)]):
                    out.append(("tag:" + name, head + ":" + ",".join("%s=%s" % kv for kv in q) + tail))
    hdr = {"#EXT-X-TARGETDURATION": "10", "#EXT-X-MEDIA-SEQUENCE": "5", "#EXT-X-DISCONTINUITY-SEQUENCE": "2", "#EXT-X-VERSION": "3", "#EXT-X-PLAYLIST-TYPE": "VOD"}
    for tag, v in hdr.items():
        for x in dress_value(v):
            base = ["#EXTM3U"] + (["#EXT-X-TARGETDURATION:10"] if tag != "#EXT-X-TARGETDURATION" else []) + [tag + ":" + x, "#EXTINF:1,", "s"]
            out.append(("media", "\n".join(base) + "\n"))
    return out


def c05_long_values(rng, rounds):
    """well-formed tags whose quoted strings, titles and URIs are long runs of multi-byte characters behind 0-3 ASCII bytes (every
    alignment of a fixed byte cut falls inside a character for most of them), alone, in a playlist of their own kind and in a
    playlist of the other kind: the paths that quote the input back (error values, Display of what was parsed) see them"""
    cases = []
    lines = [(n, t) for n, ts in TAG_SEEDS.items() for t in ts]
    lines += [("ExtXKey", '#EXT-X-KEY:METHOD=SAMPLE-AES,URI="k",KEYFORMAT="f",KEYFORMATVERSIONS="1"'), ("ExtXSessionData", '#EXT-X-SESSION-DATA:DATA-ID="d",URI="u"'),
              ("ExtXMedia", '#EXT-X-MEDIA:TYPE=SUBTITLES,URI="u",GROUP-ID="g",NAME="n",FORCED=YES'), (None, "#EXT-X-UNKNOWN:x"), (None, "# c"), (None, "u")]
    chars = ["\u00e9", "\u20ac", "\U0001F600", "\u65e5\u00e9"]
    for _ in range(rounds):
        for name, line in lines:
            spots = [m.span(1) for m in re.finditer(r'"([^"\n]*)"', line)]
            if line.startswith("#EXTINF"):
                spots.append((line.index(",") + 1, len(line)))
            if "\n" in line:
                spots.append((line.index("\n") + 1, len(line)))
            if name is None:
                spots.append((len(line) - 1, len(line)))
            for (a, b) in spots:
                ch = rng.choice(chars)
                k = rng.randint(0, 3)
                total = rng.choice([40, 130, 300, 1200])
                v = "a" * k + ch * (total // len(ch.encode()) + 1)
                t = line[:a] + v + line[b:]
                if name is not None:
                    cases.append(mk("tag:" + name, t, group="long-values:tag"))
                med = "#EXTM3U\n#EXT-X-TARGETDURATION:10\n" + t + ("\n" if name is None and not t.startswith("#") else "\n#EXTINF:1,\ns.ts\n")
                if name is None and not t.startswith("#"):
                    med = "#EXTM3U\n#EXT-X-TARGETDURATION:10\n#EXTINF:1,\n" + t + "\n"
                cases.append(mk(rng.choice(["rt_media", "media_fromstr"]), med, group="long-values:in-media"))
                cases.append(mk("media_builder", med, "-", group="long-values:in-media"))
                cases.append(mk("rt_master", "#EXTM3U\n" + t + "\n", group="long-values:in-master"))
    return cases


def c05_build(ctx):
    rng = ctx.rng
    cases = []
    # secondary static tie: when the inventory of possible panic sites of /repo/src differs from the committed one, the quick
    # tier searches with the thorough-size streams (a difference alone is no alarm: a harmless rewrite moves an unwrap)
    from . import panics as PN
    ctx.panic_inventory = PN.diff()
    if ctx.panic_inventory is not None and ctx.quick:
        C.log("panic-site inventory differs from panic_sites.json: searching with the thorough-size streams")
        ctx.n = lambda quick, thorough: max(quick, thorough // 4)
    for op, p in DEFECT_WITNESSES:
        cases.append(mk(op, p, group="witnesses"))
    cases.append(mk("media_builder", "#EXTM3U\n#EXT-X-TARGETDURATION:18446744073709551615\n#EXTINF:1,\na\n", "1000000000", group="witnesses"))
    cases += corpus_requests()
    seeds_media = [G.gen_media(rng, features=ctx.features)[0] for _ in range(ctx.n(150, 600))] + [t for t in corpus_texts() if "#EXTINF" in t]
    seeds_master = [G.gen_master(rng, features=ctx.features)[0] for _ in range(ctx.n(150, 600))] + [t for t in corpus_texts() if "#EXT-X-STREAM-INF" in t]
    nm = ctx.n(7000, 140000)
    for i in range(nm):
        t = G.mutate(rng, rng.choice(seeds_media))
        if rng.random() < 0.3:
            t = G.mutate(rng, t)
        op = rng.choice(["rt_media", "rt_media", "media_fromstr", "media_builder", "master"])
        args = [rng.choice(["-", "0", "1000000000", "18446744073709551615999999999"])] if op == "media_builder" else []
        cases.append(mk(op, t, *args, group="mutant:media"))
    for i in range(ctx.n(4000, 80000)):
        t = G.mutate(rng, rng.choice(seeds_master))
        if rng.random() < 0.3:
            t = G.mutate(rng, t)
        cases.append(mk(rng.choice(["rt_master", "rt_master", "media"]), t, group="mutant:master"))
    for name in TAG_OPS:
        for _ in range(ctx.n(350, 7000)):
            t = rng.choice(TAG_SEEDS[name])
            if rng.random() < 0.9:
                t = G.mutate(rng, t)
            cases.append(mk("tag:" + name, t, group="mutant:tag"))
    for name in TYPE_OPS:
        for _ in range(ctx.n(200, 4000)):
            t = rng.choice(TYPE_SEEDS[name])
            if rng.random() < 0.9:
                t = G.mutate(rng, t)
            cases.append(mk("type:" + name, t, group="mutant:type"))
    # two cooperating sites: boundary numbers in byte-range chains, media sequences, target durations / allowances
    vals = [0, 1, 2**32, 2**63 - 1, 2**63, U64 - 1, U64]
    for _ in range(ctx.n(3000, 60000)):
        segs = []
        for i in range(rng.randint(1, 5)):
            pick = lambda: rng.choice(vals) if rng.random() < 0.6 else rng.randint(0, 10**6)
            mp = ("%d@%d" % (pick(), pick()) if rng.random() < 0.7 else "%d" % pick()) if rng.random() < 0.2 else None
            segs.append((rng.choice(["a.ts", "a.ts", "b.ts"]), rng.choice("NEEIII"), pick(), pick(), mp))
        cases.append(mk(rng.choice(["rt_media", "media_fromstr"]), c08_render(segs), group="boundary-combo:byterange"))
    for _ in range(ctx.n(1500, 30000)):
        text, _, _ = c07_case(rng, mseq=rng.choice([U64, U64 - 1, U64 - 2, 2**63, rng.randint(U64 - 8, U64)]))
        cases.append(mk("rt_media", text, group="boundary-combo:sequence"))
    for _ in range(ctx.n(500, 10000)):
        t = rng.choice([U64, U64 - 1, 2**63, 2**32])
        d = rng.choice(["%d" % t, "%d.5" % t, "1e19", "1.8446744073709552e19", "18446744073709551615.999999999", "0.999999999", "%d" % (t // 2)])
        text = "#EXTM3U\n#EXT-X-TARGETDURATION:%d\n#EXTINF:%s,\na.ts\n#EXT-X-DATERANGE:ID=\"a\",DURATION=%s,PLANNED-DURATION=%s\n#EXTINF:1,\nb.ts\n" % (t, d, d, d)
        cases.append(mk("media_builder", text, rng.choice(["-", "1", "999999999", "1000000000", "18446744073709551615999999999"]), group="boundary-combo:duration"))
    allops = ["media", "master", "rt_media", "rt_master", "lines", "attrs", "unquote"] + ["tag:" + t for t in TAG_OPS] + ["type:" + t for t in TYPE_OPS]
    for _ in range(ctx.n(5000, 100000)):
        cases.append(mk(rng.choice(allops), ("#EXTM3U\n" if rng.random() < 0.5 else "") + G.random_text(rng), group="random-text"))
    for tok in G.BAD_TOKENS:
        for name in TYPE_OPS:
            cases.append(mk("type:" + name, tok, group="bad-token"))
    cases += c05_long_values(rng, ctx.n(8, 40))
    return cases


def timing_inputs(n, kind):
    if kind == "bounded-keys":
        body = "".join('#EXT-X-KEY:METHOD=AES-128,URI="k%d",KEYFORMAT="f%d"\n#EXTINF:9.009,\nseg%d.ts\n' % (i, i % 4, i) for i in range(n))
    elif kind == "unbounded-keys":
        body = "".join('#EXT-X-KEY:METHOD=AES-128,URI="k%d",KEYFORMAT="f%d"\n#EXTINF:9.009,\nseg%d.ts\n' % (i, i, i) for i in range(n))
    elif kind == "long-attribute-list":
        body = '#EXT-X-DATERANGE:ID="a",' + ",".join('X-A%d="v,%d"' % (i, i) for i in range(n * 4)) + "\n#EXTINF:1,\ns.ts\n"
    elif kind == "byte-ranges":
        body = "#EXT-X-BYTERANGE:100@0\n#EXTINF:1,\nv.ts\n" + "".join("#EXT-X-BYTERANGE:%d\n#EXTINF:1,\nv.ts\n" % (100 + i % 7) for i in range(n))
    elif kind == "date-ranges":
        body = "".join('#EXT-X-DATERANGE:ID="d%d",START-DATE="2010-02-19T14:54:23.031+08:00",DURATION=59.993,X-A="a%d",X-B=0x%04X,X-C=1.5\n#EXTINF:9.009,\ns%d.ts\n' % (i, i, i % 65536, i) for i in range(n))
    elif kind == "unknown-tags":
        body = "".join("#EXT-X-FOO-%d:bar\n" % i for i in range(n * 2)) + "#EXTINF:1,\ns.ts\n"
    elif kind == "discontinuities":
        body = "".join('#EXT-X-DISCONTINUITY\n#EXT-X-PROGRAM-DATE-TIME:2010-02-19T14:54:23.031+08:00\n#EXT-X-MAP:URI="i%d"\n#EXTINF:2.002,t\ns%d.ts\n' % (i, i) for i in range(n))
    elif kind == "master-session-keys":
        return "#EXTM3U\n" + "".join('#EXT-X-SESSION-KEY:METHOD=AES-128,URI="k%d",KEYFORMAT="f%d"\n' % (i, i) for i in range(n * 2))
    elif kind == "master-iframes":
        return "#EXTM3U\n#EXT-X-MEDIA:TYPE=VIDEO,GROUP-ID=\"v\",NAME=\"n\"\n" + \
            "".join('#EXT-X-I-FRAME-STREAM-INF:BANDWIDTH=%d,CODECS="avc1.4d401e",RESOLUTION=1x2,VIDEO="v",URI="i%d.m3u8"\n' % (i + 1, i) for i in range(n * 2))
    elif kind == "master-groups":
        # n renditions in n groups, n variants each referencing one of them: the reference check is a product
        return "#EXTM3U\n" + "".join('#EXT-X-MEDIA:TYPE=AUDIO,GROUP-ID="g%d",NAME="n%d"\n' % (i, i) for i in range(n)) + \
            "".join('#EXT-X-STREAM-INF:BANDWIDTH=%d,AUDIO="g%d"\nv%d.m3u8\n' % (i + 1, n - 1 - i, i) for i in range(n))
    elif kind == "master-session-data":
        return "#EXTM3U\n" + "".join('#EXT-X-SESSION-DATA:DATA-ID="d%d",VALUE="v"\n' % i for i in range(n * 2))
    elif kind == "blank-lines":
        # one uninterrupted run of lines that carry nothing (a skip by recursion instead of a loop costs stack per line)
        body = "".join(("\n", " \n", "\r\n", "\t\n")[i % 4] for i in range(n * 100)) + "#EXTINF:1,\ns.ts\n" + "# c\n" * (n * 25)
    elif kind == "master-blank-lines":
        return "#EXTM3U\n" + "".join(("\n", " \n", "\r\n")[i % 3] for i in range(n * 100)) + "#EXT-X-STREAM-INF:BANDWIDTH=1\n" + " \n" * (n * 50) + "v.m3u8\n"
    elif kind == "master-codecs":
        # ONE attribute value with many entries (a list type inside a tag)
        cod = ",".join("c%d.%d" % (i % 7, i) for i in range(n * 4))
        return '#EXTM3U\n#EXT-X-STREAM-INF:BANDWIDTH=1,CODECS="%s"\nv.m3u8\n#EXT-X-I-FRAME-STREAM-INF:BANDWIDTH=1,CODECS="%s",URI="i.m3u8"\n' % (cod, cod)
    elif kind == "master-long-strings":
        L = "x\u00e9" * (n * 10)
        return ('#EXTM3U\n#EXT-X-MEDIA:TYPE=AUDIO,URI="%s",GROUP-ID="%s",LANGUAGE="%s",ASSOC-LANGUAGE="%s",NAME="%s",CHARACTERISTICS="%s"\n'
                '#EXT-X-SESSION-DATA:DATA-ID="%s",VALUE="%s",LANGUAGE="%s"\n#EXT-X-SESSION-KEY:METHOD=AES-128,URI="%s",KEYFORMAT="%s"\n'
                '#EXT-X-STREAM-INF:BANDWIDTH=1,AUDIO="%s"\n%s\n#EXT-X-FOO:%s\n# %s\n') % ((L,) * 15)
    elif kind == "long-strings":
        L = "x\u00e9" * (n * 10)
        body = ('#EXT-X-KEY:METHOD=AES-128,URI="%s",KEYFORMAT="%s"\n#EXT-X-MAP:URI="%s"\n#EXT-X-PROGRAM-DATE-TIME:%s\n'
                '#EXT-X-DATERANGE:ID="%s",CLASS="%s",START-DATE="%s",SCTE35-CMD=0x%s,X-A="%s",X-B=0x%s\n#EXTINF:1,%s\n%s\n#EXT-X-FOO:%s\n# %s\n') % (
                    L, L, L, L, L, L, L, "AB" * (n * 10), L, "AB" * (n * 10), L, L, L, L)
    else:
        body = "#EXTINF:1," + '"' * (n * 20) + "\ns.ts\n" + "# " + "=," * (n * 10) + "\n"
    return "#EXTM3U\n#EXT-X-TARGETDURATION:10\n" + body


def _instructions(line):
    """instructions executed by the real runner on one request (valgrind cachegrind, no cache simulation); None if unavailable"""
    import shutil, subprocess
    if not shutil.which("valgrind"):
        return None
    try:
        p = subprocess.run(["valgrind", "--tool=cachegrind", "--cache-sim=no", "--cachegrind-out-file=/dev/null", C.IMPL],
                           input=(line + "\n").encode(), stdout=subprocess.PIPE, stderr=subprocess.PIPE, timeout=900)
    except Exception:
        return None
    m = re.search(rb"I\s+refs:\s+([\d,]+)", p.stderr)
    if not m or not p.stdout.startswith(b"ok "):
        return None
    return int(m.group(1).replace(b",", b""))


def c05_timing(ctx):
    """supporting evidence (not a theorem): growth of the work of the real parser+writer on inputs of doubling size.
    The growth is measured in executed instructions (deterministic up to < 1 %), the wall clock only bounds the absolute time."""
    out = {}
    viol = []
    base = 200 if ctx.quick else 400          # the quadratic families; the linear ones are measured at 4x these sizes, where a
                                              # quadratic term with a small constant already shows (seeded change C05-e)
    kinds = (("bounded-keys", "linear"), ("unbounded-keys", "quadratic"), ("long-attribute-list", "linear"), ("quotes-and-separators", "linear"),
             ("master-groups", "quadratic"), ("master-session-data", "linear"),
             ("byte-ranges", "linear"), ("date-ranges", "linear"), ("unknown-tags", "linear"), ("discontinuities", "linear"),
             ("master-session-keys", "linear"), ("master-iframes", "linear"),
             ("master-codecs", "linear"), ("master-long-strings", "linear"), ("long-strings", "linear"),
             ("blank-lines", "linear"), ("master-blank-lines", "linear"))
    limits = {"linear": 5.5, "quadratic": 24.0}          # 4x the input: 4x / 16x the work, with slack; 8x / 64x would be the next power
    startup = _instructions(C.req("time", timing_inputs(1, "bounded-keys"), "rt_media"))
    dead = []

    def one(kind, n):
        text = timing_inputs(n, kind)
        line = C.req("time", text, "rt_master" if kind.startswith("master-") else "rt_media")
        us = None
        for _ in range(1 if startup is not None else 3):          # without valgrind the wall clock decides: best of three
            o = C.run_many(C.IMPL, [line], 1)[0]
            t = int(o.split(" ")[1]) if o.startswith("ok ") else None
            if t is not None:
                us = t if us is None else min(us, t)
            elif o.split(" ")[0] in ("abort", "timeout", "panic"):
                dead.append("%s with n = %d (%d bytes): the process answered `%s` (stack overflow / abort / no answer)" % (kind, n, len(text), o.split(" ")[0]))
                break
        ins = _instructions(line) if startup is not None else None
        return (n, len(text), us, None if ins is None else max(ins - startup, 1))
    jobs = [(k, n * (4 if g == "linear" else 1)) for k, g in kinds for n in (base, base * 2, base * 4)]
    if startup is not None:
        with ThreadPoolExecutor(max_workers=min(len(jobs), C.NCPU)) as ex:
            res = list(ex.map(lambda kn: one(*kn), jobs))
    else:
        res = [one(*kn) for kn in jobs]                            # one at a time: the measurements must not disturb each other
    viol += dead
    for idx, (kind, growth) in enumerate(kinds):
        ts = res[idx * 3: idx * 3 + 3]
        out[kind] = [{"n": n, "bytes": b, "microseconds": t, "instructions": i} for n, b, t, i in ts]
        i1, i4 = ts[0][3], ts[2][3]
        if i1 and i4:
            ratio = i4 / i1
            out[kind].append({"work_ratio_4x": round(ratio, 2), "limit": limits[growth], "expected_growth": growth, "unit": "instructions"})
            if ratio > limits[growth]:
                viol.append("%s: 4x the input takes %.1fx the instructions (limit %.1f for %s growth)" % (kind, ratio, limits[growth], growth))
        else:
            # no valgrind: wall clock, best of three, one run at a time, with wide limits (noise, cache effects); this mode can
            # only notice gross blow-ups (a whole extra power of n)
            t1, t4 = ts[0][2], ts[2][2]
            lim = {"linear": 40.0, "quadratic": 150.0}[growth]
            if t1 and t4 and t1 > 5000:
                ratio = t4 / t1
                out[kind].append({"time_ratio_4x": round(ratio, 2), "limit": lim, "unit": "wall clock (valgrind not available)"})
                if ratio > lim:
                    viol.append("%s: 4x the input takes %.1fx the time (limit %.0f)" % (kind, ratio, lim))
        t4 = ts[2][2]
        if t4 and t4 > 20_000_000:
            viol.append("%s: %d bytes took %.1f s" % (kind, ts[2][1], t4 / 1e6))
    return out, viol


def c05_oracle(ctx, cases, impl, model):
    fails = []
    seen = set()
    for c, a in zip(cases, impl):
        st = a.split(" ", 1)[0]
        if st in ("panic", "abort", "timeout") or " R:panic" in a or " F:panic" in a:
            k = (c.op, st)
            if k in seen and len(fails) > 20:
                continue
            seen.add(k)
            fails.append(dict(describe(c.line, a), what="%s on %s" % ("unwound (panic)" if "panic" in a else st, c.op), law="no-panic"))
    timing, viol = c05_timing(ctx)
    ctx.timing = timing
    for v in viol:
        fails.append({"what": "running time: " + v, "law": "prompt", "request_line": C.req("time", "see evidence/C05.json coverage.timing", "rt_media")})
    return fails


def c05_canon(raw, keys):
    st = raw.split(" ", 1)[0]
    return "panic" if (st in ("panic", "abort", "timeout") or " R:panic" in raw or " F:panic" in raw) else "returns"


PROPS["C05"] = {
    "build": c05_build, "gate": {"status"}, "canon": c05_canon, "oracle": c05_oracle,
    "nontrivial": lambda c, a: True,
    "rule": "malformed stream: mutants of generated and fixture playlists (token replaced by a boundary value such as -1, 2^64-1, 2^64, nan, inf, 1e400, empty, lone quote, 300-digit numbers; truncation at every kind of position; duplicated / swapped lines; multi-byte characters spliced next to = , \" @ x / :), mutants of one or two valid texts per tag and per attribute type, random texts over a tag-biased alphabet, every boundary token on every attribute type; through every text-accepting entry point (TryFrom, FromStr, builder.parse with allowances, every public tag and type parser) and, for accepted values, to_string() and the re-parse; distinct cases all count (each decides panic-or-not); every quoted string, title and URI of every tag replaced by 40-1200 bytes of 2-, 3- and 4-byte characters behind 0-3 ASCII bytes (alone, in a playlist of its own kind, in one of the other kind); timing families with ONE long value (4n codecs, 20n-byte strings in every string position)",
    "explanation": "theorems: parseMedia_never_panics (every builder configuration, every string), parseMaster_never_panics, types_never_panic, tags_never_panic, show_never_panics (to_string of ANY media playlist value), items_np, buildLoop_np / build_np, items_byteRange (classifier output fits 64 bits, so ByteRange::set_start cannot fire); termination: all model functions pass Lean's termination checker; the compared observable is only 'unwound or returned'; running time is measured on the real library at 1x/2x/4x sizes (supporting evidence, coverage.timing)",
    "extra_coverage": lambda ctx: {"timing": getattr(ctx, "timing", {}),
                                   "panic_site_inventory": "equal to panic_sites.json" if getattr(ctx, "panic_inventory", None) is None else getattr(ctx, "panic_inventory")},
    "assumptions": ["panic sites of the Rust code are those modelled (slice in unquote, Duration::from_secs_f64, usize/Duration arithmetic, StableVec::insert, KeyFormatVersions::push, ByteRange::set_start, unreachable! in the writer); the harness is built with overflow checks and debug assertions so that arithmetic overflow is observable", "time bounds are measured, not proved"],
}


# ------------------------------------------------------------------------------------------
# C11

def c11_texts(ctx):
    rng = ctx.rng
    texts = []
    H = "#EXTM3U\n#EXT-X-TARGETDURATION:10\n"
    fmts = ["f%d" % i for i in range(8)] + ["identity", "com.apple.streamingkeydelivery", "com.microsoft.playready"]
    for _ in range(ctx.n(150, 1500)):
        n = rng.randint(2, 6)
        ks = rng.sample(fmts, n)
        body = ""
        for j in range(rng.randint(1, 3)):
            rng.shuffle(ks)
            body += "".join('#EXT-X-KEY:METHOD=AES-128,URI="%s",KEYFORMAT="%s"\n' % (rng.choice("abc"), f) for f in ks[:rng.randint(1, n)])
            if rng.random() < 0.3:
                body += '#EXT-X-MAP:URI="m%d"\n' % j
            body += "#EXTINF:1,\ns%d\n" % j
        texts.append(("rt_media", H + body))
    for _ in range(ctx.n(150, 1500)):
        texts.append(("rt_media", G.gen_media(rng, key_weight=0.7, features=ctx.features)[0]))
    for _ in range(ctx.n(100, 1000)):
        texts.append(("rt_master", G.gen_master(rng, features=ctx.features)[0]))
    for t in corpus_texts():
        texts.append(("rt_media" if "#EXTINF" in t or "TARGETDURATION" in t else "rt_master", t))
    # several distinct items of one kind plus a verbatim repetition (what a de-duplicating collection would see)
    for _ in range(ctx.n(60, 600)):
        n = rng.randint(2, 6)
        keys = ['#EXT-X-SESSION-KEY:METHOD=%s,URI="%s",KEYFORMAT="%s"' % (rng.choice(["AES-128", "SAMPLE-AES"]), rng.choice("abc"), f) for f in rng.sample(fmts, n)]
        sd = ['#EXT-X-SESSION-DATA:DATA-ID="d%d",VALUE="v"' % i for i in range(rng.randint(0, 4))]
        med = ['#EXT-X-MEDIA:TYPE=AUDIO,GROUP-ID="g%d",NAME="n"' % i for i in range(rng.randint(0, 4))]
        var = ['#EXT-X-STREAM-INF:BANDWIDTH=%d\nv%d.m3u8' % (i + 1, i) for i in range(rng.randint(1, 4))]
        unk = ["#EXT-X-FOO:%d" % i for i in range(rng.randint(0, 3))]
        items = keys + sd + med + var + unk
        for _ in range(rng.randint(1, 3)):
            pool = rng.choice([keys, keys, med or keys, var, unk or keys])
            items.insert(rng.randint(0, len(items)), rng.choice(pool))
        if rng.random() < 0.5:
            rng.shuffle(items)
        texts.append(("rt_master", "#EXTM3U\n" + "\n".join(items) + "\n"))
    for _ in range(ctx.n(60, 600)):
        t = G.gen_media(rng, key_weight=0.5, features=ctx.features)[0] if rng.random() < 0.5 else G.gen_master(rng, features=ctx.features)[0]
        ls = t.split("\n")
        tags = [i for i, l in enumerate(ls) if l.startswith("#EXT-X-") and not l.startswith("#EXT-X-STREAM-INF")]
        for _ in range(rng.randint(1, 3)):
            if tags:
                i = rng.choice(tags)
                ls.insert(rng.randint(1, len(ls) - 1), ls[i])
        t2 = "\n".join(ls)
        texts.append(("rt_media" if "#EXTINF" in t else "rt_master", t2))
    # line breaks and edge characters `str::lines` / `str::trim` treat in their own way: a lone CR (not a line break), CR CR LF, LF CR, a
    # byte-order mark, vertical tab / form feed / NEL at the line ends, no final newline, a CR inside a line: one answer each time,
    # and the model's
    bm = "#EXTM3U\n#EXT-X-TARGETDURATION:10\n#EXTINF:1,t\na.ts\n#EXT-X-ENDLIST\n"
    bs = "#EXTM3U\n#EXT-X-STREAM-INF:BANDWIDTH=1\nu\n"
    for t, op in ((bm, "rt_media"), (bs, "rt_master")):
        for u in (t.replace("\n", "\r"), t.replace("\n", "\r", 1), "\ufeff" + t, t.replace("\n", "\n\r"), t.replace("\n", "\r\r\n"), t.replace("\n", " "), t.replace("\n", "\x0b\n"),
                  t.replace("\n", "\x0c\n\x0c"), t.replace("\n", "\u0085\n"), t.rstrip("\n"), t + "\r", t.replace(":", "\r:"), t.replace(",", "\r,", 1), t.replace("\n", "\u2028\n"),
                  t.replace("\n", "\u2028"), t.replace("\n", "\r\n\r\n")):
            texts.append((op, u))
    # the same texts with quoted strings written so that the parser has to ALLOCATE for them instead of borrowing from the input (no
    # quotes around a URI; a stray quote inside): a result that depends on where such a string lies in memory (comparison of
    # addresses, pointer-keyed maps) shows when the heap looks different from one parse to the next
    extra = []
    for op, t in texts[:ctx.n(400, 4000)]:
        u = re.sub(r'URI="([^",\s"]+)"', lambda m: "URI=" + m.group(1) if rng.random() < 0.7 else 'URI="' + m.group(1)[:1] + '"' + m.group(1)[1:] + '"', t)
        if u != t:
            extra.append((op, u))
    return texts + extra


def c11_build(ctx):
    cases = []
    k = ctx.n(5, 50)
    texts = c11_texts(ctx)
    for i, (op, t) in enumerate(texts):
        for r in range(k):
            cases.append(mk(op, t, group="repeat-in-process", meta={"id": i}))
        cases.append(mk("par", t, op, group="threads", meta={"id": i}))
    # the same text parsed again by the SAME builder object (`MediaPlaylistBuilder::parse` takes `&mut self`): once, twice, three times
    med = [t for op, t in texts if op == "rt_media"]
    step = max(1, len(med) // ctx.n(150, 1500))
    reuse = med[::step] + NEAR_MEDIA + [G.gen_media(ctx.rng, features=ctx.features)[0] for _ in range(ctx.n(60, 600))] + \
        ["#EXTM3U\n#EXT-X-TARGETDURATION:10\n#EXT-X-FOO:1\n#EXTINF:1,\na.ts\n#EXT-X-BAR\n#EXTINF:1,\nb.ts\n"]
    for i, t in enumerate(reuse):
        one = "parse " + C.hx(t)
        for rep in (1, 2, 3):
            cases.append(mk("build_media", "\n".join([one] * rep), group="builder-reuse", meta={"id": "reuse%d" % i, "reuse": True}))
    return cases


def c11_static(ctx):
    from . import translate as T
    try:
        sites = T.hash_iteration_sites()
    except T.TranslateError as e:
        sites = ["translator: %s" % e]
    out = [{"kind": "corr", "broken": "static tie of C11: a hash collection's iteration order can reach an output", "detail": sites,
            "what": "hash-order dependence introduced: %s" % "; ".join(sites[:3])}] if sites else []
    try:
        hidden = T.hidden_state_sites()
    except T.TranslateError as e:
        hidden = []
    if hidden:
        out.append({"kind": "corr", "broken": "static tie of C11: the model's parse is a function of the text alone; the code now keeps state between calls", "detail": hidden,
                    "what": "state that outlives a call introduced (the result may depend on earlier calls): %s" % "; ".join(hidden[:3])})
    return out


def c11_oracle(ctx, cases, impl, model):
    fails = []
    by_id = {}
    for c, a in zip(cases, impl):
        if a.startswith("nondeterministic"):
            fails.append(dict(describe(c.line, a), what="the same text parsed on two threads gives different results", law="threads")); continue
        by_id.setdefault(c.meta["id"], []).append((c, a))
    for i, items in by_id.items():
        outs = {a for _, a in items}
        if len(outs) > 1:
            c, a = items[0]
            other = next(x for x in outs if x != a)
            what = "parsing the same text again with the same builder gives a different result" if c.meta.get("reuse") else \
                "parsing the same text %d times in one process gives %d different results" % (len(items), len(outs))
            fails.append(dict(describe(c.line, a), what=what, law="repeat", other=other[:2000]))
    # fresh processes (fresh hash seeds)
    m = ctx.n(4, 64)
    distinct = []
    seen = set()
    for c in cases:
        if c.group == "repeat-in-process" and c.meta["id"] not in seen:
            seen.add(c.meta["id"]); distinct.append(c)
    lines = [c.line for c in distinct]
    ref = None
    for p in range(m):
        out = C.run_many(C.IMPL, lines, 1)
        if ref is None:
            ref = out
            continue
        for c, x, y in zip(distinct, ref, out):
            if x != y:
                fails.append(dict(describe(c.line, x), what="parsing the same text in two processes gives different results", law="processes", other=y[:2000]))
                break
    ctx.features["fresh_processes"] = m
    ctx.features["distinct_texts"] = len(lines)
    return fails


PROPS["C11"] = {
    "build": c11_build, "gate": {"status", "obs", "T", "V", "D", "A", "R", "F"}, "oracle": c11_oracle, "static": c11_static,
    "nontrivial": lambda c, a: a.startswith("ok") and c.group == "threads",
    "rule": "texts with 2-6 simultaneously active key formats declared in shuffled orders (plus maps), generated media/master playlists with a high key rate, repository fixtures; each text is parsed and re-serialised k times in one process (quick 5, thorough 50), on 4 extra threads (`par`), and in m fresh processes (quick 4, thorough 64; fresh hash seeds); all responses (value, text, version, keys(), round trip) must be byte-identical and equal to the model's single answer; master playlists with several distinct items of each kind plus verbatim repetitions, generated playlists with repeated tag lines; static: hash collections whose iteration can reach an output, state that outlives a call (thread_local, interior-mutable statics); non-trivial = distinct accepted texts",
    "explanation": "theorems: listing_canonical (the key listing is determined by the RFC-level key state), insert_comm, same_state_same_listing, segment_keys_sorted (every accepted text), parse_is_a_function; static tie: a scan of media_playlist.rs / master_playlist.rs / media_segment.rs / line.rs flags any HashSet/HashMap whose iteration can reach an output (membership-only use is allowed); the runtime part of the property (threads, processes, hash seeds) cannot be exhibited by a model and is executed",
    "assumptions": ["thread scheduling and process hash seeds are sampled, not enumerated (partial by nature)"],
}


# ------------------------------------------------------------------------------------------
# C17

OWNED_TAGS = ["ExtInf", "ExtXKey", "ExtXMap", "ExtXProgramDateTime", "ExtXDateRange", "ExtXMedia", "ExtXSessionData", "ExtXSessionKey", "VariantStream"]
OWNED_TYPES = ["ClosedCaptions", "Codecs", "DecryptionKey", "KeyFormat", "StreamData", "Value"]


def c17_build(ctx):
    rng = ctx.rng
    cases = []
    for i in range(ctx.n(1200, 24000)):
        t = G.gen_media(rng, features=ctx.features)[0]
        cases.append(mk("owned:media", t, group="owned:media", meta={"id": i}))
        for op, args in (("media", []), ("media_fromstr", []), ("media_builder", ["-"])):
            cases.append(mk(op, t, *args, group="entry-points", meta={"ep": i}))
    for i in range(ctx.n(1200, 24000)):
        cases.append(mk("owned:master", G.gen_master(rng, features=ctx.features)[0], group="owned:master"))
    for t in corpus_texts():
        cases.append(mk("owned:media", t, group="corpus")); cases.append(mk("owned:master", t, group="corpus"))
        for op, args in (("media", []), ("media_fromstr", []), ("media_builder", ["-"])):
            cases.append(mk(op, t, *args, group="entry-points", meta={"ep": hash(t)}))
    for name in OWNED_TAGS:
        for _ in range(ctx.n(150, 3000)):
            t = rng.choice(TAG_SEEDS[name])
            if rng.random() < 0.5:
                t = G.mutate(rng, t)
            cases.append(mk("owned:tag:" + name, t, group="owned:tag"))
    for name in OWNED_TYPES:
        for _ in range(ctx.n(150, 3000)):
            t = rng.choice(TYPE_SEEDS[name])
            if rng.random() < 0.5:
                t = G.mutate(rng, t)
            cases.append(mk("owned:type:" + name, t, group="owned:type"))
    # attribute-rich tags so that every Option field is populated at least sometimes
    for _ in range(ctx.n(400, 8000)):
        lay = G.Layout(rng)
        cases.append(mk("owned:tag:ExtXDateRange", G.gen_daterange(rng, lay), group="owned:tag"))
    # a conversion that is ALMOST the identity differs on special values: the families of values one field apart (absent / zero /
    # default / empty, neighbours) of every type and tag, and keys whose version lists contain zeros
    for kind, texts in NEAR_FAMILIES.items():
        name = kind.split(":")[1]
        if (kind.startswith("tag:") and name in OWNED_TAGS) or (kind.startswith("type:") and name in OWNED_TYPES):
            for t in texts:
                cases.append(mk("owned:" + kind, t, group="owned:near"))
    for v in ['"0"', '"0/0"', '"0/1"', '"1/0"', '"0/0/0/0/0/0/0/0/0"', '"1"', '"1/1"', '"255"']:
        for pfx, name in (("#EXT-X-KEY:", "ExtXKey"), ("#EXT-X-SESSION-KEY:", "ExtXSessionKey")):
            cases.append(mk("owned:tag:" + name, pfx + 'METHOD=SAMPLE-AES,URI="k",KEYFORMAT="f",KEYFORMATVERSIONS=' + v, group="owned:near"))
        cases.append(mk("owned:type:DecryptionKey", 'METHOD=SAMPLE-AES,URI="k",KEYFORMAT="f",KEYFORMATVERSIONS=' + v, group="owned:near"))
        t = '#EXTM3U\n#EXT-X-TARGETDURATION:10\n#EXT-X-KEY:METHOD=SAMPLE-AES,URI="k",KEYFORMAT="f",KEYFORMATVERSIONS=%s\n#EXT-X-MAP:URI="i"\n#EXTINF:1,\ns.ts\n' % v
        cases.append(mk("owned:media", t, group="owned:near", meta={"id": "kfv" + v}))
        for op, args in (("media", []), ("media_fromstr", []), ("media_builder", ["-"])):
            cases.append(mk(op, t, *args, group="entry-points", meta={"ep": "kfv" + v}))
        cases.append(mk("owned:master", '#EXTM3U\n#EXT-X-SESSION-KEY:METHOD=SAMPLE-AES,URI="k",KEYFORMAT="f",KEYFORMATVERSIONS=%s\n' % v, group="owned:near"))
    for t in NEAR_MEDIA:
        cases.append(mk("owned:media", t, group="owned:near", meta={"id": "near" + str(hash(t))}))
        for op, args in (("media", []), ("media_fromstr", []), ("media_builder", ["-"])):
            cases.append(mk(op, t, *args, group="entry-points", meta={"ep": "near" + str(hash(t))}))
    for t in NEAR_MASTER:
        cases.append(mk("owned:master", t, group="owned:near"))
    # playlists that did not come from a default parse: builder scripts (every setter with its default / zero / largest value, segments
    # pushed or handed over, explicit numbers), and a builder that was configured before it parsed a text
    hx = lambda t: t.encode().hex()
    seg = "dur=1000000000 uri=" + hx("a")
    DMAX = "18446744073709551615999999999"
    text = "#EXTM3U\n#EXT-X-TARGETDURATION:10\n#EXT-X-FOO\n#EXTINF:1,\na.ts\n#EXTINF:1,\nb.ts\n#EXTINF:1,\nc.ts\n"
    setters = {"td": ["10000000000", "0", DMAX], "ms": ["0", "5", str(U64 - 3)], "ds": ["0", "1", str(U64)], "pt": ["VOD", "EVENT"], "ifo": ["0", "1"], "ind": ["0", "1"],
               "end": ["0", "1"], "ex": ["0", "1", "500000000", DMAX, "18446744073709551605999999999"], "unk": ["", hx("#EXT-X-BAR")], "start": ["3fc00000 0", "3fc00000 1", "80000000 0"]}
    for k, vals in setters.items():
        for v in vals:
            call = (k + " " + v).strip()
            pre = [] if k == "td" else ["td 10000000000"]
            cases.append(mk("owned_build_media", "\n".join(pre + [call, "push " + seg, "push " + seg.replace(hx("a"), hx("b")), "push " + seg.replace(hx("a"), hx("c"))]), group="owned:built"))
            cases.append(mk("owned_build_media", "\n".join([call, "parse " + hx(text)]), group="owned:preset-parse"))
    for nseg in range(0, 10):          # every small number of segments (a container rebuilt element by element differs in capacity)
        calls = ["td 10000000000"] + ["push dur=1000000000 uri=" + hx("s%d" % i) for i in range(nseg)]
        cases.append(mk("owned_build_media", "\n".join(calls if nseg else calls + ["segs"]), group="owned:built"))
        t = "#EXTM3U\n#EXT-X-TARGETDURATION:10\n" + "".join("#EXTINF:1,\ns%d.ts\n" % i for i in range(nseg))
        cases.append(mk("owned:media", t, group="owned:near", meta={"id": "n%d" % nseg}))
        cases.append(mk("cmp_entry", t, group="entry-points-eq"))
    for t in NEAR_MEDIA:
        cases.append(mk("cmp_entry", t, group="entry-points-eq"))
    for _ in range(ctx.n(300, 6000)):
        cases.append(mk("cmp_entry", G.gen_media(rng, features=ctx.features)[0], group="entry-points-eq"))
    return inf_first(cases, ops=("owned:media",), every=2)


def c17_oracle(ctx, cases, impl, model):
    fails = []
    eps = {}
    for c, a in zip(cases, impl):
        r = C.Resp(a)
        if r.status == "panic":
            fails.append(dict(describe(c.line, a), what="panicked", law="no-panic")); continue
        if c.op == "cmp_entry" and r.status == "ok" and (r.get("E") != "1" or r.get("X") != "1"):
            fails.append(dict(describe(c.line, a), what="the values the three entry points return for one text (or their clones / owned forms) do not compare equal: E:%s X:%s" % (r.get("E"), r.get("X")),
                              law="entry-points-eq"))
        if (c.op.startswith("owned:") or c.op == "owned_build_media") and r.status == "ok":
            o, cl = r.get("O"), r.get("C")
            if o != "111":
                names = ["== fails", "observable content differs", "to_string() differs"]
                bad = [n for n, b in zip(names, o or "000") if b != "1"]
                fails.append(dict(describe(c.line, a), what="into_owned() of %s: %s" % (c.op[6:] if c.op.startswith("owned:") else "a built playlist", ", ".join(bad)), law="into_owned"))
            if cl != "111":
                fails.append(dict(describe(c.line, a), what="clone() of %s changes the value (%s)" % (c.op[6:] if c.op.startswith("owned:") else "a built playlist", cl), law="clone"))
        if "ep" in c.meta:
            eps.setdefault(c.meta["ep"], []).append((c, a))
    for k, items in eps.items():
        outs = {C.project(a, {"status", "obs", "T", "V", "D"}) for _, a in items}
        if len(outs) > 1:
            c, a = items[0]
            d = describe(c.line, a)
            d["context_lines"] = [x.line for x, _ in items[1:]]
            fails.append(dict(d, what="TryFrom<&str>, FromStr and MediaPlaylistBuilder::parse disagree on the same text", law="entry-points"))
    return fails


PROPS["C17"] = {
    "build": c17_build, "gate": {"status", "obs", "O", "C", "T", "V", "D"}, "oracle": c17_oracle,
    "nontrivial": lambda c, a: a.startswith("ok"),
    "rule": "generated media and master playlists, repository fixtures, valid and mutated texts of every tag and attribute type that offers into_owned() (9 tags, 6 types; segments through the playlists), attribute-rich EXT-X-DATERANGE tags; for each accepted value v: v.clone().into_owned() and v.clone() must be ==, have the same observation and the same to_string(); the three media entry points are run on the same texts; the near-pair families of every type and tag, keys with zero version lists (tag, playlist, entry points), near-equal media / master playlists; non-trivial = accepted value",
    "explanation": "theorems (over lean/Hls/Generated/IntoOwned.lean, regenerated from the 19 fn into_owned bodies on every run): *_id for all 19 types (into_owned is the identity on observable content), entry_points_agree, owned_same_text; oracle on the implementation: ==, equal observation, equal text for into_owned() and clone(); equal results of TryFrom / FromStr / builder.parse",
    "assumptions": ["#[derive(Clone)] is structural (trusted)", "the translator recognises only ownership-only wrappers (Cow::Owned(x.into_owned()), .map(..into_owned..), .into_iter().map(..).collect(), plain move); any other expression is reported as a broken tie"],
}


# ------------------------------------------------------------------------------------------
# C14

def c14_media_rule(t, uri, group, name, default, auto, forced, instream):
    """EXT-X-MEDIA rules from the property text; arguments: values or None (absent); invalid enum = 'BAD'"""
    if t is None or t == "BAD" or not group or not name:
        return False
    if "BAD" in (default, auto, forced, instream):
        return False
    if t == "SUBTITLES" and not uri:
        return False
    if t == "CLOSED-CAPTIONS" and (uri or not instream):
        return False
    if t != "CLOSED-CAPTIONS" and instream:
        return False
    if forced == "YES" and t != "SUBTITLES":
        return False
    if default == "YES" and auto == "NO":
        return False
    return True


def c14_build(ctx):
    cases = []
    types = ["AUDIO", "VIDEO", "SUBTITLES", "CLOSED-CAPTIONS", None, "BAD"]
    yn = [None, "YES", "NO"]
    for t, uri, group, name, d, a, f, ins in itertools.product(types, [None, "u"], [None, "g"], [None, "n"], yn + ["BAD"], yn, yn, [None, "CC1", "SERVICE7", "BAD"]):
        if d == "BAD" and (a is not None or f is not None):
            continue
        attrs = []
        if t:
            attrs.append("TYPE=%s" % ("KARAOKE" if t == "BAD" else t))
        if uri:
            attrs.append('URI="u"')
        if group:
            attrs.append('GROUP-ID="g"')
        if name:
            attrs.append('NAME="n"')
        for k, v in (("DEFAULT", d), ("AUTOSELECT", a), ("FORCED", f)):
            if v:
                attrs.append("%s=%s" % (k, "MAYBE" if v == "BAD" else v))
        if ins:
            attrs.append('INSTREAM-ID="%s"' % ("CC9" if ins == "BAD" else ins))
        exp = c14_media_rule(t, uri, group, name, d, a, f, ins)
        text = "#EXT-X-MEDIA:" + ",".join(attrs)
        cases.append(mk("tag:ExtXMedia", text, group="MEDIA-text", meta={"exp": exp}))
        if "BAD" not in (t, d, a, f, ins):
            toks = []
            if t: toks.append("type=" + t)
            if uri: toks.append("uri=75")
            if group: toks.append("group=67")
            if name: toks.append("name=6e")
            for k, v in (("default", d), ("autoselect", a), ("forced", f)):
                if v: toks.append("%s=%d" % (k, v == "YES"))
            if ins: toks.append("instream=" + ins)
            cases.append(mk("build_tag:ExtXMedia", " ".join(toks), group="MEDIA-builder", meta={"exp": exp}))
        # through the enclosing playlist
        if exp or (d is None and a is None):
            cases.append(mk("master", "#EXTM3U\n" + text + "\n", group="MEDIA-in-master", meta={"exp": exp}))
    # DATERANGE
    for idp, cl, sd, ed, du, pd, eon, xa in itertools.product([0, 1], [0, 1], [0, 1], [0, 1], [None, "1.5", "-1", "nan"], [None, "2", "-0.5"], [None, "YES", "NO"], [None, 'X-A="v"', 'X-a="v"', "X-Ä=1", "X-A_B=1"]):
        attrs = []
        if idp: attrs.append('ID="i"')
        if cl: attrs.append('CLASS="c"')
        if sd: attrs.append('START-DATE="2010-02-19T14:54:23.031+08:00"')
        if ed: attrs.append('END-DATE="2010-02-19T15:54:23.031+08:00"')
        if du: attrs.append("DURATION=" + du)
        if pd: attrs.append("PLANNED-DURATION=" + pd)
        if xa: attrs.append(xa)
        if eon: attrs.append("END-ON-NEXT=" + eon)
        exp = bool(idp) and du in (None, "1.5") and pd in (None, "2") and eon in (None, "YES") and xa in (None, 'X-A="v"')
        if eon == "YES":
            exp = exp and bool(cl) and du is None and not ed
        text = "#EXT-X-DATERANGE:" + ",".join(attrs)
        cases.append(mk("tag:ExtXDateRange", text, group="DATERANGE-text", meta={"exp": exp}))
        if du in (None, "1.5") and pd in (None, "2") and eon != "NO" and xa in (None, 'X-A="v"'):
            toks = []
            if idp: toks.append("id=69")
            if cl: toks.append("class=63")
            if sd: toks.append("start=32303130")
            if ed: toks.append("end=32303131")
            if du: toks.append("dur=1500000000")
            if pd: toks.append("planned=2000000000")
            if xa: toks.append("attr=582d41:S76")
            if eon: toks.append("eon=1")
            cases.append(mk("build_tag:ExtXDateRange", " ".join(toks), group="DATERANGE-builder", meta={"exp": exp, "eon": eon == "YES", "class": bool(cl), "dur": du, "end": bool(ed), "id": bool(idp)}))
    # SESSION-DATA
    for idp, v, u, l in itertools.product([0, 1], [0, 1], [0, 1], [0, 1]):
        attrs = (['DATA-ID="d"'] if idp else []) + (['VALUE="v"'] if v else []) + (['URI="u"'] if u else []) + (['LANGUAGE="en"'] if l else [])
        exp = bool(idp) and (v + u == 1)
        cases.append(mk("tag:ExtXSessionData", "#EXT-X-SESSION-DATA:" + ",".join(attrs), group="SESSION-DATA-text", meta={"exp": exp}))
        cases.append(mk("master", "#EXTM3U\n#EXT-X-SESSION-DATA:" + ",".join(attrs) + "\n", group="SESSION-DATA-in-master", meta={"exp": exp}))
        if not (v and u):
            toks = (["id=64"] if idp else []) + (["value=76"] if v else []) + (["uri=75"] if u else []) + (["lang=656e"] if l else [])
            cases.append(mk("build_tag:ExtXSessionData", " ".join(toks), group="SESSION-DATA-builder", meta={"exp": exp}))
    # present-but-empty is present: an attribute with an empty (or blank) value counts for the rules exactly like one with content
    # (the one exception the library makes is the URI of a key, covered below)
    empt = [None, '"x"', '""', '" "']
    for idp, v, u in itertools.product([None, '"d"', '""'], empt, empt):
        attrs = (["DATA-ID=" + idp] if idp else []) + (["VALUE=" + v] if v else []) + (["URI=" + u] if u else [])
        exp = idp is not None and ((v is not None) != (u is not None))
        for order in (attrs, attrs[::-1]):
            cases.append(mk("tag:ExtXSessionData", "#EXT-X-SESSION-DATA:" + ",".join(order), group="SESSION-DATA-empty-values", meta={"exp": exp}))
        if not (v and u):
            unq = lambda t: t[1:-1].encode().hex()
            toks = (["id=" + unq(idp)] if idp else []) + (["value=" + unq(v)] if v else []) + (["uri=" + unq(u)] if u else [])
            cases.append(mk("build_tag:ExtXSessionData", " ".join(toks), group="SESSION-DATA-empty-values", meta={"exp": exp}))
    for t, uri, group, name, lang in itertools.product(["AUDIO", "SUBTITLES", "CLOSED-CAPTIONS"], empt, [None, '"g"', '""'], [None, '"n"', '""'], [None, '""']):
        attrs = ["TYPE=" + t] + (["URI=" + uri] if uri else []) + (["GROUP-ID=" + group] if group else []) + (["NAME=" + name] if name else []) + \
            (["LANGUAGE=" + lang] if lang else []) + (['INSTREAM-ID="CC1"'] if t == "CLOSED-CAPTIONS" else [])
        exp = c14_media_rule(t, uri, group, name, None, None, None, "CC1" if t == "CLOSED-CAPTIONS" else None)
        cases.append(mk("tag:ExtXMedia", "#EXT-X-MEDIA:" + ",".join(attrs), group="MEDIA-empty-values", meta={"exp": exp}))
        cases.append(mk("tag:ExtXMedia", "#EXT-X-MEDIA:" + ",".join(attrs[::-1]), group="MEDIA-empty-values", meta={"exp": exp}))
    for idp, cl, ed, eon in itertools.product([None, '"i"', '""'], [None, '"c"', '""'], [None, '"2010-02-19T15:54:23.031+08:00"', '""'], [None, "YES"]):
        attrs = (["ID=" + idp] if idp else []) + (["CLASS=" + cl] if cl else []) + (["END-DATE=" + ed] if ed else []) + (["END-ON-NEXT=" + eon] if eon else [])
        exp = idp is not None and (eon is None or (cl is not None and ed is None))
        for order in (attrs, attrs[::-1]):
            cases.append(mk("tag:ExtXDateRange", "#EXT-X-DATERANGE:" + ",".join(order), group="DATERANGE-empty-values", meta={"exp": exp}))
    # an enumerated value is the bare word: the same word dressed with quotes (as a quoted-string attribute would be written), with
    # stray quotes, in another letter case or in apostrophes is outside the RFC's set and is rejected — for every enumerated
    # attribute of every tag (a parser that runs such a value through the helper for quoted strings accepts them)
    enum_bases = [
        ("tag:ExtXDateRange", '#EXT-X-DATERANGE:ID="i",CLASS="c",END-ON-NEXT=%s', ["YES"]),
        ("tag:ExtXMedia", '#EXT-X-MEDIA:TYPE=%s,GROUP-ID="g",NAME="n"', ["AUDIO", "VIDEO"]),
        ("tag:ExtXMedia", '#EXT-X-MEDIA:TYPE=AUDIO,GROUP-ID="g",NAME="n",DEFAULT=%s', ["YES", "NO"]),
        ("tag:ExtXMedia", '#EXT-X-MEDIA:TYPE=AUDIO,GROUP-ID="g",NAME="n",AUTOSELECT=%s', ["YES", "NO"]),
        ("tag:ExtXMedia", '#EXT-X-MEDIA:TYPE=SUBTITLES,URI="u",GROUP-ID="g",NAME="n",FORCED=%s', ["YES", "NO"]),
        ("tag:ExtXKey", '#EXT-X-KEY:METHOD=%s,URI="u"', ["AES-128", "SAMPLE-AES"]),
        ("tag:ExtXKey", '#EXT-X-KEY:METHOD=%s', ["NONE"]),
        ("tag:ExtXSessionKey", '#EXT-X-SESSION-KEY:METHOD=%s,URI="u"', ["AES-128", "SAMPLE-AES"]),
        ("tag:ExtXMap", '#EXT-X-MAP:URI="u"%s', [""]),
        ("tag:ExtXStart", '#EXT-X-START:TIME-OFFSET=1,PRECISE=%s', ["YES", "NO"]),
        ("type:PlaylistType", "#EXT-X-PLAYLIST-TYPE:%s", ["VOD", "EVENT"]),
        ("tag:VariantStream", '#EXT-X-STREAM-INF:BANDWIDTH=1,HDCP-LEVEL=%s\nu', ["TYPE-0", "NONE"]),
        ("tag:VariantStream", '#EXT-X-I-FRAME-STREAM-INF:BANDWIDTH=1,URI="u",HDCP-LEVEL=%s', ["TYPE-0", "NONE"]),
    ]
    for op, tmpl, vals in enum_bases:
        for v in vals:
            if not v:
                continue
            dressed = [v, '"%s"' % v, '"' + v, v + '"', '""%s""' % v, v[:1] + '"' + v[1:], v + '""', v.lower(), v.title(), "'%s'" % v, v + v, v[:-1]]
            for x in dressed:
                text = tmpl % x
                cases.append(mk(op, text, group="enumerated-value-dressed", meta={"exp": x == v}))
                if op in ("tag:ExtXDateRange", "tag:ExtXKey", "tag:ExtXStart", "type:PlaylistType"):
                    cases.append(mk("media", "#EXTM3U\n#EXT-X-TARGETDURATION:10\n" + text + "\n#EXTINF:1,\ns\n", group="enumerated-value-dressed", meta={"exp": x == v}))
                elif op != "tag:ExtXMap":
                    cases.append(mk("master", "#EXTM3U\n" + text + "\n", group="enumerated-value-dressed", meta={"exp": x == v}))
    # every value of every attribute in every neighbouring spelling: acceptance has to be the model's (no separate expectation)
    for op, text in dressed_value_cases():
        cases.append(mk(op, text, group="dressed-values"))
    # keys
    ivs = [None, "0x000102030405060708090a0b0c0d0e0f", "0X000102030405060708090A0B0C0D0E0F", "000102030405060708090a0b0c0d0e0f", "0x0001", "0x000102030405060708090a0b0c0d0e0g",
           # 32 characters behind the prefix that a number parser would swallow but that are not 32 hex digits
           "0x+00102030405060708090a0b0c0d0e0f", "0x-00102030405060708090a0b0c0d0e0f", "0x 00102030405060708090a0b0c0d0e0f", "0x0_0102030405060708090a0b0c0d0e0f",
           "0x0x0102030405060708090a0b0c0d0e0f", "0x00102030405060708090a0b0c0d0e0f ", "0x000102030405060708090a0b0c0d0e0f0", "0x00102030405060708090a0b0c0d0e0f"]
    vers = [None, '"1"', '"1/2/5"', '"1/2/3/4/5/6/7/8/9"', '"1/2/3/4/5/6/7/8/9/10"', '"256"', '"x"']
    hxs = lambda t: t.encode().hex()
    # blank = nothing but white space in the Unicode sense (what `str::trim` removes), not only the ASCII blanks
    blanks = ["", " ", " \t", "\u00a0", "\u3000", "\u0085", "\x0b", "\x0c", " \u00a0 ", "\u2003\u00a0", "\u2028", "\u1680"]
    nonblank = ["k", " k ", "\u00a0k\u00a0", "\u200b", "\ufeff", "_"]          # zero-width space and BOM are not white space
    for uri, tagname in itertools.product(blanks + nonblank, ["ExtXKey", "ExtXSessionKey"]):
        if '"' in uri or "\n" in uri or "\x0b" in uri or "\x0c" in uri or "\u0085" in uri or "\u2028" in uri:
            continue            # line terminators and quotes cannot stand inside a quoted string of one line
        pfx = "#EXT-X-KEY:" if tagname == "ExtXKey" else "#EXT-X-SESSION-KEY:"
        cases.append(mk("tag:" + tagname, pfx + 'METHOD=AES-128,URI="%s"' % uri, group="KEY-text-blank-uri", meta={"exp": uri in nonblank}))
    for method, uri, iv, kv, tagname in itertools.product([None, "AES-128", "SAMPLE-AES", "NONE", "AES-256"], [None, '"k"', '""', '" "'], ivs, vers, ["ExtXKey", "ExtXSessionKey"]):
        attrs = ([("METHOD=" + method)] if method else []) + (["URI=" + uri] if uri else []) + (["IV=" + iv] if iv else []) + (["KEYFORMATVERSIONS=" + kv] if kv else [])
        if tagname == "ExtXKey" and method == "NONE":
            exp = True
        else:
            exp = method in ("AES-128", "SAMPLE-AES") and uri == '"k"' and iv in (None, ivs[1], ivs[2]) and kv in (None, vers[1], vers[2], vers[3])
        pfx = "#EXT-X-KEY:" if tagname == "ExtXKey" else "#EXT-X-SESSION-KEY:"
        cases.append(mk("tag:" + tagname, pfx + ",".join(attrs), group="KEY-text", meta={"exp": exp}))
    for method, uri in itertools.product([None, "aes", "saes"], [None] + [hxs(b) for b in blanks] + [hxs(b) for b in nonblank]):
        toks = (["method=" + method] if method else []) + (["uri=" + uri] if uri is not None else [])
        exp = method is not None and uri in [hxs(b) for b in nonblank]          # a blank URI is no URI, for the builder as for the parser
        cases.append(mk("build_tag:DecryptionKey", " ".join(toks), group="KEY-builder", meta={"exp": exp}))
    # stream tags
    for bw, uri, hd, res, fr in itertools.product([None, "1", "-1", "x"], [0, 1], [None, "TYPE-0", "NONE", "TYPE-1"], [None, "1x2", "1x", "x"], [None, "25", "-1", "nan"]):
        attrs = (["BANDWIDTH=" + bw] if bw else []) + (["HDCP-LEVEL=" + hd] if hd else []) + (["RESOLUTION=" + res] if res else [])
        base_ok = bw == "1" and hd in (None, "TYPE-0", "NONE") and res in (None, "1x2")
        cases.append(mk("tag:VariantStream", "#EXT-X-STREAM-INF:" + ",".join(attrs + (["FRAME-RATE=" + fr] if fr else [])) + "\nuri", group="STREAM-INF-text", meta={"exp": base_ok and fr in (None, "25")}))
        cases.append(mk("tag:VariantStream", "#EXT-X-I-FRAME-STREAM-INF:" + ",".join(attrs + (['URI="u"'] if uri else [])), group="I-FRAME-text", meta={"exp": base_ok and bool(uri)}))
    for bw in (None, "1"):
        cases.append(mk("build_tag:StreamData", "bw=1" if bw else "video=76", group="STREAM-builder", meta={"exp": bw is not None}))
    # START
    for to, pr in itertools.product([None, "1.5", "-1.5", "x", "inf", "nan"], [None, "YES", "NO", "MAYBE"]):
        attrs = (["TIME-OFFSET=" + to] if to else []) + (["PRECISE=" + pr] if pr else [])
        cases.append(mk("tag:ExtXStart", "#EXT-X-START:" + ",".join(attrs), group="START-text", meta={"exp": to in ("1.5", "-1.5") and pr in (None, "YES", "NO")}))
    # enumerated values
    for name, good, bad in (("MediaType", G.IN_STREAM_IDS[:0] + ["AUDIO", "VIDEO", "SUBTITLES", "CLOSED-CAPTIONS"], ["audio", "KARAOKE", "", "AUDIO "]),
                            ("HdcpLevel", ["TYPE-0", "NONE"], ["TYPE-1", "none", ""]), ("EncryptionMethod", ["AES-128", "SAMPLE-AES"], ["NONE", "AES-256", "aes-128"]),
                            ("InStreamId", G.IN_STREAM_IDS, ["CC0", "CC5", "SERVICE0", "SERVICE64", "cc1", ""]), ("ProtocolVersion", list("1234567"), ["0", "8", "", "1.0"])):
        for v in good:
            cases.append(mk("type:" + name, v, group="enums", meta={"exp": True}))
        for v in bad:
            cases.append(mk("type:" + name, v, group="enums", meta={"exp": False}))
    # the rules do not depend on the order in which the attributes are written: every text case again with its
    # attribute list reversed and once shuffled (a validation that runs inside the attribute loop would depend on it)
    extra = []
    for c in cases:
        if not (c.op.startswith("tag:") or c.op == "master"):
            continue
        lines = c.payload.split("\n")
        for mode in ("reversed", "shuffled"):
            out = []
            changed = False
            for ln in lines:
                new = ln
                for pfx in C12_ATTR_TAGS:
                    if ln.startswith(pfx):
                        pairs = c12_split_attrs(ln[len(pfx):])
                        if pairs and len(pairs) > 1 and len({k for k, _ in pairs}) == len(pairs):
                            pairs = list(reversed(pairs)) if mode == "reversed" else ctx.rng.sample(pairs, len(pairs))
                            new = pfx + ",".join(k + "=" + v for k, v in pairs)
                out.append(new)
                changed = changed or new != ln
            if changed:
                extra.append(mk(c.op, "\n".join(out), group=c.group + "-" + mode, meta=c.meta))
    return cases + extra


def c14_oracle(ctx, cases, impl, model):
    fails = []
    for c, a in zip(cases, impl):
        st = a.split(" ", 1)[0]
        if st == "panic":
            fails.append(dict(describe(c.line, a), what="panicked", law="no-panic")); continue
        if st == "bad-op":
            fails.append(dict(describe(c.line, a), what="harness rejected a generated script", law="harness")); continue
        if "exp" not in c.meta:
            continue
        exp = c.meta["exp"]
        if exp != (st == "ok"):
            fails.append(dict(describe(c.line, a), what="%s: attribute rules say %s, implementation %s" % (c.group, "accept" if exp else "reject", st), law="rules",
                              builder_without_validation=c.group == "DATERANGE-builder" and not exp and st == "ok" and c.meta.get("id", False),
                              ))
    return fails


@classifier("K6a-daterange-builder-unvalidated")
def _k6a(f):
    return f.get("builder_without_validation") is True




PROPS["C14"] = {
    "build": c14_build, "gate": {"status"}, "oracle": c14_oracle,
    "nontrivial": lambda c, a: True,
    "rule": "exhaustive over presence/absence of each tag's attributes and over each enumerated attribute's value set plus one invalid value: EXT-X-MEDIA (6 TYPE cases x URI x GROUP-ID x NAME x DEFAULT/AUTOSELECT/FORCED in {absent,YES,NO[,invalid]} x INSTREAM-ID in {absent,CC1,SERVICE7,invalid}) as text, through the enclosing master playlist and through ExtXMediaBuilder; EXT-X-DATERANGE (ID, CLASS, START-DATE, END-DATE, DURATION in {absent,1.5,-1,nan}, PLANNED-DURATION, END-ON-NEXT in {absent,YES,NO}, client attribute names valid/lowercase/non-ASCII/underscore) as text and through the builder; EXT-X-SESSION-DATA 2^4 as text, in a master playlist and through the builder; EXT-X-KEY / EXT-X-SESSION-KEY (METHOD x URI x 6 IV spellings x 7 KEYFORMATVERSIONS spellings); stream tags; EXT-X-START; every value and some non-values of every enumerated type; every case counts; every string attribute of SESSION-DATA / MEDIA / DATERANGE absent, with content, empty, blank (text in both orders, builders); key URIs blank in the Unicode sense (12 blank, 6 non-blank strings) as text and through the builder",
    "exhaustive": True,
    "explanation": "enumerated values: mediaType_values / hdcpLevel_values / inStreamId_values / method_values / yes_no_values / dateRange_end_on_next (a value is accepted only if it IS one of the table's names) and enum_quote_rejected (a quote anywhere in an enumerated value means rejection; enum_names_bare by decide over the tables regenerated from the source); theorems: media_build_ok_iff / media_parse_ok_iff (ExtXMediaBuilder::validate + required fields = the property's rules, for ALL builder states; the text parser ends in the same table), dateRange_finish_ok_iff, dateRange_end_on_next, duration_text_rejected, duration_special_rejected, client_attribute_name_rejected, sessionData_finish_ok_iff, decryptionKey_finish_ok_iff, decryptionKey_uri_nonempty, method_values, iv_syntax, versions_capacity, streamData_finish_ok_iff, iframe_needs_uri, yes_no_values, start_needs_time_offset; the two builders without validation are stated as _partial with counterexample theorems (K6); oracle: the property's rules written independently in Python per generated attribute subset",
    "assumptions": [],
}


# ------------------------------------------------------------------------------------------
# C18

def c18_build(ctx):
    rng = ctx.rng
    cases = []
    # exhaustive enums
    for name, vals in (("MediaType", ["AUDIO", "VIDEO", "SUBTITLES", "CLOSED-CAPTIONS"]), ("HdcpLevel", ["TYPE-0", "NONE"]),
                       ("EncryptionMethod", ["AES-128", "SAMPLE-AES"]), ("InStreamId", G.IN_STREAM_IDS), ("ProtocolVersion", list("1234567")),
                       ("PlaylistType", ["#EXT-X-PLAYLIST-TYPE:VOD", "#EXT-X-PLAYLIST-TYPE:EVENT"]),
                       ("KeyFormat", ['"identity"', '"com.apple.streamingkeydelivery"', '"urn:uuid:edef8ba9-79d6-4ace-a3c8-27dcd51d21ed"', '"com.microsoft.playready"', '"custom"', '"日本"']),
                       ("ClosedCaptions", ["NONE", '"cc1"', '"NONE"', '"a,b"'])):
        for v in vals:
            cases.append(mk("type:" + name, v, group="enum", meta={"domain": True}))
    ints = [0, 1, 255, 256, 2**32 - 1, 2**32, 2**32 + 1, 2**63, U64 - 1, U64]
    for _ in range(ctx.n(300, 6000)):
        ints.append(rng.randint(0, U64))
    for n in ints:
        cases.append(mk("type:Channels", "%d" % n, group="int", meta={"domain": True}))
        cases.append(mk("type:Channels", "%d/JOC" % n, group="int", meta={"domain": True}))
        cases.append(mk("type:Resolution", "%dx%d" % (n, rng.choice(ints)), group="int", meta={"domain": True}))
        o = rng.choice(ints)
        if n + o <= U64:
            cases.append(mk("type:ByteRange", "%d@%d" % (n, o), group="int", meta={"domain": True}))
        cases.append(mk("type:ByteRange", "%d" % n, group="int", meta={"domain": True}))
    for _ in range(ctx.n(300, 6000)):
        k = rng.randint(1, 9)
        cases.append(mk("type:KeyFormatVersions", '"' + "/".join(str(rng.choice([0, 1, 2, 5, 255, rng.randint(0, 255)])) for _ in range(k)) + '"', group="versions", meta={"domain": True}))
        cases.append(mk("type:InitializationVector", rng.choice(["0x", "0X"]) + "".join(rng.choice("0123456789abcdefABCDEF") for _ in range(32)), group="iv", meta={"domain": True}))
        cases.append(mk("type:Codecs", ",".join(rng.choice(["avc1.4d401e", "mp4a.40.2", "x y", "日本", "a=b"]) for _ in range(rng.randint(1, 4))), group="codecs", meta={"domain": True}))
    for op, text in dressed_value_cases():
        cases.append(mk(op, text, group="dressed-values", meta={"domain": False}))
    for t in [",a", "a,", "a,,b", ",", ",,", ",,a", ",a,", "a,b,", " ,a", ", "]:
        cases.append(mk("type:Codecs", t, group="codecs-empty-entries", meta={"domain": True}))
        cases.append(mk("tag:VariantStream", '#EXT-X-STREAM-INF:BANDWIDTH=1,CODECS="%s"\nu' % t, group="codecs-empty-entries", meta={"domain": True}))
        cases.append(mk("tag:VariantStream", '#EXT-X-I-FRAME-STREAM-INF:BANDWIDTH=1,URI="u",CODECS="%s"' % t, group="codecs-empty-entries", meta={"domain": True}))
        cases.append(mk("type:Value", rng.choice(['"%s"' % G.qs(rng), "0x" + "".join(rng.choice("0123456789ABCDEF") for _ in range(2 * rng.randint(0, 8))), G.f32_literal(rng)]), group="value", meta={"domain": True}))
    # float wrappers: literals, and bit patterns through the model too
    for _ in range(ctx.n(2000, 40000)):
        lit = G.f32_literal(rng)
        cases.append(mk("type:Float", lit, group="float-literal", meta={"domain": True}))
        cases.append(mk("type:UFloat", lit, group="float-literal", meta={"domain": True}))
    specials = ["inf", "-inf", "nan", "NaN", "infinity", "1e39", "-1e39", "3.4028235e38", "3.4028236e38", "1e-46", "-1e-46", "-0", "+0", "0.0", "1e-45"]
    for lit in specials:
        cases.append(mk("type:Float", lit, group="float-special", meta={"finite": None}))
        cases.append(mk("type:UFloat", lit, group="float-special", meta={"finite": None}))
    nbits = ctx.n(6000, 2**19)
    for i in range(nbits):
        r = rng.random()
        if r < 0.5:
            bits = rng.getrandbits(32)
        elif r < 0.8:
            bits = (rng.randint(0, 255) << 23) | rng.choice([0, 1, 2, 0x7fffff, 0x7ffffe, 0x400000]) | (rng.getrandbits(1) << 31)
        else:
            bits = rng.choice([0, 0x80000000, 1, 0x7f7fffff, 0x7f800000, 0xff800000, 0x7fc00000, 0x00800000, 0x3f800000]) ^ rng.choice([0, 1])
        cases.append(mk("f32:Float", "%08x" % (bits & 0xffffffff), group="float-bits", meta={"domain": True}))
        cases.append(mk("f32:UFloat", "%08x" % (bits & 0xffffffff), group="float-bits", meta={"domain": True}))
    # durations below 10^6 s with nanosecond precision
    for _ in range(ctx.n(3000, 100000)):
        ns = rng.choice([rng.randint(0, 10**15 - 1), rng.randint(0, 10**10), rng.randint(0, 10**6) * NS + rng.choice([0, 1, 499999999, 500000000, 999999999])])
        cases.append(mk("tag:ExtInf", "#EXTINF:%s," % dec9(ns), group="duration", meta={"domain": True, "ns": ns}))
    # EXTINF titles: everything behind the FIRST comma is the title (commas, '=', quotes, blanks inside included)
    words = ["Artist", "The - Song", "a", "b", "x=y", "日本", "\"q\"", "1", "#EXT", "t\t2", "-", "0x1F", ""]
    for _ in range(ctx.n(800, 16000)):
        k = rng.randint(1, 4)
        title = rng.choice([",", ", ", " ,", ";"]).join(rng.choice(words) for _ in range(k)).strip()
        if not title:
            continue
        ns = rng.choice([rng.randint(0, 10**10), rng.randint(0, 30) * NS])
        lit = dec9(ns)
        if ns % NS == 0 and rng.random() < 0.6:          # a whole number of seconds in its other spellings
            lit = rng.choice(["%d", "0%d", "%d.", "%d.0", "00%d.00"]) % (ns // NS)
        cases.append(mk("tag:ExtInf", "#EXTINF:%s,%s" % (lit, title), group="duration-title", meta={"domain": True, "ns": ns, "title": title}))
    for secs, title in itertools.product([0, 1, 7, 10, 3600], [",", ",,", ",,,", "a,", ",a", ", ,", "1", "1,2", "#", "=", "a=b,c"]):
        for lit in ("%d", "0%d", "%d.0", "%d.5"):
            ns = secs * NS + (NS // 2 if lit.endswith(".5") else 0)
            cases.append(mk("tag:ExtInf", "#EXTINF:%s,%s" % (lit % secs, title), group="duration-title", meta={"domain": True, "ns": ns, "title": title.strip()}))
    # every tag line of generated and abstract playlists (all attribute subsets the playlist generators produce), tag by tag
    PFX = [("#EXT-X-I-FRAME-STREAM-INF:", "VariantStream"), ("#EXT-X-STREAM-INF:", "VariantStream"), ("#EXT-X-MEDIA:", "ExtXMedia"),
           ("#EXT-X-SESSION-DATA:", "ExtXSessionData"), ("#EXT-X-SESSION-KEY:", "ExtXSessionKey"), ("#EXT-X-START:", "ExtXStart"),
           ("#EXT-X-KEY:", "ExtXKey"), ("#EXT-X-MAP:", "ExtXMap"), ("#EXT-X-DATERANGE:", "ExtXDateRange"), ("#EXTINF:", "ExtInf"),
           ("#EXT-X-BYTERANGE:", "ExtXByteRange"), ("#EXT-X-PROGRAM-DATE-TIME:", "ExtXProgramDateTime")]

    def tag_lines(text):
        ls = [l.strip() for l in text.split("\n") if l.strip()]
        k = 0
        while k < len(ls):
            l = ls[k]
            for pfx, name in PFX:
                if l.startswith(pfx):
                    if pfx == "#EXT-X-STREAM-INF:":
                        if k + 1 < len(ls):
                            yield name, l + "\n" + ls[k + 1]
                            k += 1
                    else:
                        yield name, l
                    break
            k += 1
    seen_tags = set()
    from . import faithful as FA
    for i in range(ctx.n(400, 8000)):
        texts = [G.gen_master(rng, features=ctx.features, fr3=True)[0], G.gen_media(rng, features=ctx.features)[0]]
        texts.append(FA.render_master(rng, FA.gen_master_ast(rng, {}), plain=True))
        texts.append(FA.render_media(rng, FA.gen_media_ast(rng, {}), plain=True))
        for t in texts:
            for name, line in tag_lines(t if isinstance(t, str) else ""):
                if (name, line) in seen_tags:
                    continue
                m = re.search(r"FRAME-RATE\s*=\s*([^,\s]+)", line)
                if m and not re.fullmatch(r"\d+(\.\d{1,3})?", m.group(1)):
                    continue        # the writer prints three decimals: finer frame rates are outside the domain of the round trip (FL3)
                seen_tags.add((name, line))
                cases.append(mk("tag:" + name, line, group="tag-of-playlist", meta={"domain": True, "kfv1": True}))
    # composite tags in their canonical domain: valid seeds + generated
    for name in TAG_OPS:
        for t in TAG_SEEDS[name]:
            cases.append(mk("tag:" + name, t, group="tag-seed", meta={"domain": True}))
    for _ in range(ctx.n(600, 12000)):
        lay = G.Layout(rng)
        cases.append(mk("tag:ExtXDateRange", G.gen_daterange(rng, lay), group="tag-generated", meta={"domain": True}))
        cases.append(mk("tag:ExtXKey", "#EXT-X-KEY:" + lay.attrs(G.gen_key(rng)), group="tag-generated", meta={"domain": True, "kfv1": True}))
        cases.append(mk("tag:ExtXSessionKey", "#EXT-X-SESSION-KEY:" + lay.attrs(G.gen_key(rng)), group="tag-generated", meta={"domain": True, "kfv1": True}))
        sd = G.gen_stream_data(rng, ["v1"])
        cases.append(mk("type:StreamData", lay.attrs(sd), group="tag-generated", meta={"domain": True}))
        cases.append(mk("tag:VariantStream", "#EXT-X-STREAM-INF:" + lay.attrs(sd + ([("FRAME-RATE", "%d.%03d" % (rng.randint(0, 240), rng.randint(0, 999)))] if rng.random() < 0.5 else [])) + "\nuri.m3u8", group="tag-generated", meta={"domain": True}))
        cases.append(mk("tag:VariantStream", "#EXT-X-I-FRAME-STREAM-INF:" + lay.attrs(sd + [("URI", '"u"')]), group="tag-generated", meta={"domain": True}))
    # values that only a constructor reaches (the text parser would type their text differently if it looked at it the wrong way):
    # the property is about every value, so these must survive write -> parse too
    hx = lambda t: t.encode().hex()
    for sv in ["2024", "1.5", "-3", "+7", ".5", "1e3", "007", "0x1F", "0XAB", "inf", "NaN", "", "YES", "NO", "a,b", "a=b", " 1", "1 ", "0x", "\u00e9", "1.5.2", "-"]:
        cases.append(mk("build_tag:ExtXDateRange", "id=69 attr=582d41:S" + hx(sv), group="built:client-string", meta={"domain": True}))
        cases.append(mk("build_tag:ExtXDateRange", "id=" + hx(sv if sv else "i") + " class=" + hx(sv), group="built:strings", meta={"domain": True}))
        cases.append(mk("build_tag:ExtXSessionData", "id=" + hx(sv if sv else "i") + " value=" + hx(sv) + " lang=" + hx(sv), group="built:strings", meta={"domain": True}))
    for hv in ["00", "ab", "0102ff", "00" * 40]:
        cases.append(mk("build_tag:ExtXDateRange", "id=69 attr=582d41:H" + hv, group="built:client-hex", meta={"domain": True}))
    # the public constructors that are not builders (`new`, `with_…`, `From<Range>`): what they make must be written and read back
    # like everything else
    strs = ["a", "", "x,y", "a=b", "\u65e5\u672c", " lead", "1.5", "0x1F", "NONE", "YES"]
    U = 2 ** 64 - 1
    for b in ["00000000", "3f800000", "bf800000", "3fc00000", "41200000", "80000000", "3dcccccd"]:
        for pr in ("", " precise=0", " precise=1"):
            cases.append(mk("ctor:ExtXStart", "t=" + b + pr, group="ctor", meta={"domain": True}))
    for x in strs:
        for extra in ("", " lang=" + hx(x), " lang=" + hx("en")):
            cases.append(mk("ctor:ExtXSessionData", "id=" + hx(x or "i") + " value=" + hx(x) + extra, group="ctor", meta={"domain": True}))
            cases.append(mk("ctor:ExtXSessionData", "id=" + hx(x or "i") + " uri=" + hx(x) + extra, group="ctor", meta={"domain": True}))
        for what in ("DecryptionKey", "ExtXSessionKey", "ExtXKey"):
            for m in ("aes", "saes"):
                cases.append(mk("ctor:" + what, "method=%s uri=%s" % (m, hx(x or "k")), group="ctor", meta={"domain": True}))
        cases.append(mk("ctor:ExtXDateRange", "id=%s start=%s" % (hx(x), hx("2010-02-19T14:54:23.031+08:00")), group="ctor", meta={"domain": True}))
        cases.append(mk("ctor:ExtXDateRange", "id=%s start=%s" % (hx("i"), hx(x)), group="ctor", meta={"domain": True}))
        for ty in ("AUDIO", "VIDEO"):
            cases.append(mk("ctor:ExtXMedia", "type=%s group=%s name=%s" % (ty, hx(x), hx("n")), group="ctor", meta={"domain": True}))
            cases.append(mk("ctor:ExtXMedia", "type=%s group=%s name=%s" % (ty, hx("g"), hx(x)), group="ctor", meta={"domain": True}))
        cases.append(mk("ctor:ExtXMap", "uri=" + hx(x), group="ctor", meta={"domain": True}))
        cases.append(mk("ctor:ExtXMap", "uri=" + hx(x) + " range=5@0", group="ctor", meta={"domain": True}))
        if x.strip() == x and x:
            cases.append(mk("ctor:ExtInf", "dur=1000000000 title=" + hx(x), group="ctor", meta={"domain": True}))
            cases.append(mk("ctor:ExtXProgramDateTime", "t=" + hx(x), group="ctor", meta={"domain": True}))
        cases.append(mk("ctor:Codecs", "list=" + hx(x), group="ctor", meta={"domain": True}))
    cases.append(mk("ctor:Codecs", "", group="ctor", meta={"domain": False}))          # `Codecs::new()`: the empty list is outside the domain (its text is the text of [""]); run for no-panic / agreement only
    for n in [0, 1, 2, 6, 2 ** 32, U]:
        cases.append(mk("ctor:StreamData", "bw=%d" % n, group="ctor", meta={"domain": True}))
        cases.append(mk("ctor:Channels", "n=%d" % n, group="ctor", meta={"domain": True}))
        cases.append(mk("ctor:ExtXByteRange", "to=%d" % n, group="ctor", meta={"domain": True}))
    for v in range(1, 8):
        cases.append(mk("ctor:ExtXVersion", "v=%d" % v, group="ctor", meta={"domain": True}))
    for d in [0, 1, 999999999, 10 ** 9, 1500000000, 9009000000, 10 ** 15 - 1]:
        cases.append(mk("ctor:ExtInf", "dur=%d" % d, group="ctor", meta={"domain": True, "ns": d}))
    for r in ["5@0", "0@0", "5@10", "1@%d" % (U - 1), "%d@0" % U, "0@%d" % U]:
        cases.append(mk("ctor:ExtXByteRange", "range=" + r, group="ctor", meta={"domain": True}))
        cases.append(mk("ctor:ExtXMap", "uri=" + hx("i") + " range=" + r, group="ctor", meta={"domain": True}))
    for f in [x for x in G.KEYFORMATS if x] + G.KEYFORMATS_LOOKALIKE + ["a,b", "a=b", "1", "NONE"]:
        cases.append(mk("build_tag:DecryptionKey", "method=aes uri=6b format=" + hx(f), group="built:key-format", meta={"domain": True, "kfv1": True}))
        cases.append(mk("build_tag:DecryptionKey", "method=saes uri=" + hx(f) + " format=" + hx(f) + " versions=1/2", group="built:key-format", meta={"domain": True, "kfv1": True}))
    return cases


def c18_sweep(ctx):
    """all 2^32 binary32 patterns (thorough) or a stratified 2^24 (quick) on the real float wrappers"""
    total = 2**32
    if ctx.quick:
        chunk = 2**16
        starts = [i * (total // 256) for i in range(256)]
    else:
        chunk = 2**24
        starts = list(range(0, total, chunk))
    lines = []
    # the two wrappers, and the two places where a float travels inside something else (EXT-X-START, a client attribute value)
    carriers = ("Float", "UFloat", "ExtXStart", "Value")
    full = set()
    if ctx.quick:
        # a changed float path in the source (a cast, another parse) is met by the whole domain at once: a two-step rounding
        # differs from the direct one on a handful of the 2^32 patterns
        from . import panics as PN
        d = PN.diff() or {}
        touched = [f for f, x in d.items() if isinstance(x, dict) and any(re.search(r"cast|f32|f64|parse", t) for t in x.get("appeared", []))]
        if touched:
            full = {"ExtXStart", "Value", "Float", "UFloat"}
            C.log("float-related code changed in %s: sweeping all 2^32 patterns" % ", ".join(touched[:4]))
    for ty in carriers:
        if ty in full:
            for s in range(0, total, 2**24):
                lines.append(C.req("sweepf32:" + ty, "%d %d" % (s, 2**24)))
            continue
        for s in starts:
            lines.append(C.req("sweepf32:" + ty, "%d %d" % (s, chunk)))
    outs = C.run_many(C.IMPL, lines, jobs=C.NCPU)
    checked = accepted = 0
    bad = []
    for l, o in zip(lines, outs):
        t = o.split(" ")
        if t[0] != "ok":
            bad.append((l, o)); continue
        checked += int(t[1]); accepted += int(t[2])
        if int(t[3]) > 0:
            bad.append((l, o))
    return {"patterns_checked": checked, "accepted": accepted, "exhaustive_2^32": not ctx.quick}, bad


def c18_oracle(ctx, cases, impl, model):
    fails = []
    for c, a in zip(cases, impl):
        r = C.Resp(a)
        if r.status == "panic":
            fails.append(dict(describe(c.line, a), what="panicked", law="no-panic")); continue
        if c.group == "float-special":
            continue
        if c.group == "float-bits":
            bits = int(c.payload, 16)
            finite = (bits >> 23) & 0xff != 0xff
            should = finite and not (c.op.endswith("UFloat") and bits >> 31)
            if should != (r.status == "ok"):
                fails.append(dict(describe(c.line, a), what="%s accepts exactly the finite%s numbers: bits %s expected %s, got %s" % (c.op, " non-negative" if "UFloat" in c.op else "", c.payload, should, r.status), law="float-domain")); continue
        if r.status != "ok":
            if c.meta.get("domain") and c.group not in ("float-literal", "float-bits", "value", "tag-generated", "tag-of-playlist"):
                fails.append(dict(describe(c.line, a), what="a value in the domain of %s was rejected" % c.op, law="accept"))
            continue
        rr = r.get("R")
        if rr != "=" and c.meta.get("domain") is not False:
            k4 = bool(c.meta.get("kfv1")) and 'KEYFORMATVERSIONS="1"' in c.payload.replace(" ", "")
            fails.append(dict(describe(c.line, a), what="%s: parsing the written text gives %s instead of the value" % (c.op, "an error" if rr == "err" else "a different value"), law="round-trip",
                              default_versions_dropped=k4))
        if "ns" in c.meta:
            m = parse_obs(r.obs)
            if int(m[0]) != c.meta["ns"]:
                fails.append(dict(describe(c.line, a), what="EXTINF %s parsed to %s ns" % (dec9(c.meta["ns"]), m[0]), law="duration-exact"))
            if "title" in c.meta and ostr(m[1]) != c.meta["title"]:
                fails.append(dict(describe(c.line, a), what="EXTINF title %r parsed to %r" % (c.meta["title"], ostr(m[1])), law="title-exact"))
    cov, bad = c18_sweep(ctx)
    ctx.sweep = cov
    for l, o in bad[:5]:
        fails.append(dict(describe(l, o), what="f32 sweep: a bit pattern is wrongly accepted/rejected or does not survive to_string -> parse: %s" % o, law="float-sweep"))
    return fails


@classifier("K4-default-keyformatversions-dropped")
def _k4(f):
    return f.get("default_versions_dropped") is True


PROPS["C18"] = {
    "build": c18_build, "gate": {"status", "obs", "T", "R", "V"}, "oracle": c18_oracle,
    "nontrivial": lambda c, a: a.startswith("ok"),
    "rule": "every variant of every enumerated type (67 in-stream ids, 7 versions, ...), boundary and random 64-bit integers through Channels / Resolution / ByteRange, random key-format-version lists (1-9 items), 128-bit IVs in both hex cases, codec lists, client attribute values of the three kinds, float literals and random / structured binary32 bit patterns on both float wrappers (also run through the model's float emulation), durations below 10^6 s with nanosecond precision, seeds and generated instances of every composite tag; plus a sweep of binary32 patterns executed inside the harness (quick: 256 strata x 2^16 per wrapper; thorough: all 2^32 per wrapper): accept iff finite (and sign bit clear), to_string -> parse gives the same bits; values built through the public builders and through the constructors that are not builders (ctor: new / with_ / From<Range> of 14 types) incl. strings that read like numbers, hex or keywords; the binary32 sweeps also through EXT-X-START and a client attribute value (all 2^32 in the quick tier too when float-related code changed); non-trivial = accepted value",
    "explanation": "theorems: encryptionMethod_rt, hdcpLevel_rt, mediaType_rt, playlistType_rt, protocolVersion_rt, inStreamId_rt (all 67, decide +kernel over the table regenerated from the source), channels_rt, resolution_rt, byteRange_rt, codecs_rt, hexDecode_encode / natToBytes_spec / hexEncode_utf8Len / value_hex_rt, keyFormat_rt, closedCaptions_rt, keyFormatVersions_rt, float_accepts_finite; Props/C18Tags.lean: every tag type (EXTINF, BYTERANGE, KEY, MAP, PROGRAM-DATE-TIME, DATERANGE with its client attributes, MEDIA, both STREAM-INF kinds, SESSION-DATA, SESSION-KEY, START, the one-value tags) parses back from its own text on its well-formedness domain, and every parsed value is in that domain; Props/C18Float.lean: FL1 is now a THEOREM (float_roundtrip / ufloat_roundtrip / parseFloat_display for every format: the printed text of a finite value is read back as the same value whenever the digit search of the printing model finds digits — a decidable fact the kernel evaluates on concrete values), FL2 is reduced to two numeric facts (secs_roundtrip), FL3 (three-decimal frame rate) stays a named hypothesis; the printing model itself is tied to the implementation by execution incl. the 2^32 sweep; every case also carries the implementation oracle R:= (parse(to_string(v)) has the same observation as v), for parsed values and for values built through the public builders",
    "extra_coverage": lambda ctx: {"f32_sweep": getattr(ctx, "sweep", {})},
    "assumptions": ["FL1 (shortest-digit printing of binary32 round-trips) and FL2 (durations < 10^6 s through f64) are validated by execution, not proved"],
}


# ------------------------------------------------------------------------------------------
# C10

def rfc_min_of_text(text):
    """RFC 8216 section 7, evaluated on the written text alone"""
    v = 1
    has_map = has_ifo = False
    nver = 0
    ver = None
    for l in text.split("\n"):
        l = l.strip()
        if l.startswith("#EXT-X-VERSION:"):
            nver += 1; ver = l[len("#EXT-X-VERSION:"):]
        elif l.startswith("#EXT-X-KEY:") or l.startswith("#EXT-X-SESSION-KEY:"):
            bare = re.sub(r'"[^"]*"', '""', l)          # attribute names are looked for outside the quoted strings
            if re.search(r"(^|[:,])\s*IV\s*=", bare):
                v = max(v, 2)
            if re.search(r"(^|[:,])\s*KEYFORMAT(VERSIONS)?\s*=", bare):
                v = max(v, 5)
        elif l.startswith("#EXTINF:"):
            d = l[len("#EXTINF:"):].split(",")[0]
            if "." in d and float(d) != int(float(d)):
                v = max(v, 3)
        elif l.startswith("#EXT-X-BYTERANGE:"):
            v = max(v, 4)
        elif l.startswith("#EXT-X-I-FRAMES-ONLY"):
            v = max(v, 4); has_ifo = True
        elif l.startswith("#EXT-X-MAP:"):
            v = max(v, 5); has_map = True
        elif l.startswith("#EXT-X-MEDIA:"):
            if re.search(r'(^|[:,])\s*INSTREAM-ID\s*=\s*"SERVICE', re.sub(r'"[^"]*"', lambda m: m.group(0) if m.group(0).startswith('"SERVICE') else '""', l)):
                v = max(v, 7)
    if has_map and not has_ifo:
        v = max(v, 6)
    return v, nver, ver, has_map


def c10_build(ctx):
    rng = ctx.rng
    cases = []
    for t in corpus_texts():
        cases.append(mk("media" if ("#EXTINF" in t or "TARGETDURATION" in t) else "master", t, group="corpus"))
    for _ in range(ctx.n(4000, 80000)):
        cases.append(mk("media", G.gen_media(rng, features=ctx.features)[0], group="generated-media"))
    for _ in range(ctx.n(3000, 60000)):
        cases.append(mk("master", G.gen_master(rng, features=ctx.features)[0], group="generated-master"))
    # what the writer carries from one segment to the next (a tag it decides not to repeat must not leave the version behind)
    for c in c03_consecutive():
        cases.append(mk("media", c.payload, group="consecutive"))
    # feature lattice: each version-relevant feature on/off
    for iv, frac, br, ifo, kf, kfv, mp, sv in itertools.product([0, 1], repeat=8):
        ls = ["#EXTM3U", "#EXT-X-TARGETDURATION:10"]
        if ifo: ls.append("#EXT-X-I-FRAMES-ONLY")
        k = '#EXT-X-KEY:METHOD=AES-128,URI="k"'
        if iv: k += ",IV=0x000102030405060708090a0b0c0d0e0f"
        if kf: k += ',KEYFORMAT="f"'
        if kfv: k += ',KEYFORMATVERSIONS="1/2"'
        if iv or kf or kfv or sv: ls.append(k)
        if mp: ls.append('#EXT-X-MAP:URI="m"')
        if br: ls.append("#EXT-X-BYTERANGE:10@0")
        ls += ["#EXTINF:%s," % ("1.5" if frac else "2"), "s.ts"]
        cases.append(mk("media", "\n".join(ls) + "\n", group="feature-lattice"))
    for ins, kiv, kf in itertools.product(["CC1", "SERVICE1", None], [0, 1], [0, 1]):
        ls = ["#EXTM3U"]
        if ins: ls.append('#EXT-X-MEDIA:TYPE=CLOSED-CAPTIONS,GROUP-ID="g",NAME="n",INSTREAM-ID="%s"' % ins)
        if kiv or kf:
            ls.append('#EXT-X-SESSION-KEY:METHOD=AES-128,URI="k"' + (",IV=0x000102030405060708090a0b0c0d0e0f" if kiv else "") + (',KEYFORMAT="f"' if kf else ""))
        cases.append(mk("master", "\n".join(ls) + "\n", group="feature-lattice"))
    # built playlists
    for _ in range(ctx.n(500, 10000)):
        segs = []
        for i in range(rng.randint(0, 4)):
            s = "push dur=%d uri=%s" % (rng.choice([NS, 1500000000, 10 * NS]), C.hx("s%d" % i))
            if rng.random() < 0.3: s += " br=10@%d" % (i * 10)
            if rng.random() < 0.3: s += " map=" + C.hx("m")
            if rng.random() < 0.4: s += " key=aes:%s:%s:%s:%s" % (C.hx("k"), rng.choice(["-", "000102030405060708090a0b0c0d0e0f"]), rng.choice(["-", C.hx("f"), C.hx("identity")]), rng.choice(["-", "1/2", "1"]))
            segs.append(s)
        script = "td 10000000000\n" + ("ifo 1\n" if rng.random() < 0.2 else "") + "\n".join(segs)
        cases.append(mk("build_media", script.rstrip("\n"), group="built"))
    # renditions made with ExtXMedia::new and then changed through their PUBLIC FIELDS (no builder validation in between): whatever
    # the writer prints for them has to be covered by the version
    for ty, ins, st in itertools.product(["AUDIO", "VIDEO", "SUBTITLES", "CLOSED-CAPTIONS"], [None, "CC1", "SERVICE1", "SERVICE63"], [None, "VIDEO", "CLOSED-CAPTIONS"]):
        item = "type=%s+group=%s+name=%s" % (ty, C.hx("g"), C.hx("n")) + ("+instream=" + ins if ins else "") + ("+settype=" + st if st else "")
        for extra in ("", "\nskeys " + C.hx('#EXT-X-SESSION-KEY:METHOD=AES-128,URI="k",IV=0x000102030405060708090a0b0c0d0e0f')):
            cases.append(mk("build_master", "mediaf " + item + extra, group="public-field-renditions"))
    # key LISTS of built segments (whatever is written has to be covered by the version): several keys, the NONE marker in front
    # of, behind and between real keys, each version-relevant attribute on each position
    kk = {"plain": "key=aes:%s:-:-:-" % C.hx("k"), "iv": "key=aes:%s:000102030405060708090a0b0c0d0e0f:-:-" % C.hx("k"), "fmt": "key=saes:%s:-:%s:-" % (C.hx("k"), C.hx("f")),
          "ver": "key=saes:%s:-:%s:1/2" % (C.hx("k"), C.hx("g")), "none": "key=none",
          # a version list that is PRESENT but empty (`KeyFormatVersions::new()`, builders only): the writer prints KEYFORMATVERSIONS="1"
          "verempty": "key=saes:%s:-:-:empty" % C.hx("k"), "verempty-aes": "key=aes:%s:-:-:empty" % C.hx("k"), "ver1": "key=saes:%s:-:-:1" % C.hx("k")}
    for a_, b_ in itertools.product(kk, repeat=2):
        for c_ in (None, "none", "plain"):
            if a_ == b_ and a_ != "none":
                continue
            toks = [kk[a_], kk[b_]] + ([kk[c_]] if c_ else [])
            for frac in (0, 1):
                script = "td 10000000000\npush dur=%d uri=%s\npush dur=%d uri=%s %s" % (1500000000 if frac else NS, C.hx("s0"), NS, C.hx("s1"), " ".join(toks))
                cases.append(mk("build_media", script, group="built-key-lists"))
    # durations of every magnitude with a fraction the binary64 rendering keeps (halves up to 2^52 s, quarters up to 2^51 s, …): the
    # written EXTINF is a decimal-floating-point number however large it is
    big = [10 ** k for k in range(0, 16)] + [2 ** k - 1 for k in (24, 32, 40, 48, 50, 51, 52)] + [4 * 10 ** 15, 2 ** 52 + 1, 2 ** 53 + 1, 10 ** 17]
    for secs in big:
        for fr_lit, fr_ns in ((".5", 500000000), (".25", 250000000), (".125", 125000000), (".000000001", 1), ("", 0)):
            for keyed in (0, 1):
                k = '#EXT-X-KEY:METHOD=AES-128,URI="k"\n' if keyed else ""
                cases.append(mk("media", "#EXTM3U\n#EXT-X-TARGETDURATION:%d\n%s#EXTINF:%d%s,\ns.ts\n" % (2 ** 63, k, secs, fr_lit), group="large-fractional-durations"))
                cases.append(mk("build_media", "td %d\npush dur=%d uri=%s%s" % (2 ** 63 * NS, secs * NS + fr_ns, C.hx("s"), (" key=aes:%s:-:-:-" % C.hx("k")) if keyed else ""),
                                group="large-fractional-durations"))
    return inf_first(cases, every=3)


def c10_oracle(ctx, cases, impl, model):
    fails = []
    for c, a in zip(cases, impl):
        r = C.Resp(a)
        if r.status == "panic":
            fails.append(dict(describe(c.line, a), what="panicked", law="no-panic")); continue
        if r.status != "ok":
            continue
        text = C.unhx(r.get("T", ""))
        V = int(r.get("V"))
        mn, nver, ver, has_map = rfc_min_of_text(text)
        if nver > 1:
            fails.append(dict(describe(c.line, a), what="the text contains %d EXT-X-VERSION tags" % nver, law="one-version-tag")); continue
        if (nver == 0) != (V == 1) or (nver == 1 and ver != str(V)):
            fails.append(dict(describe(c.line, a), what="EXT-X-VERSION tag %r does not match required_version() = %d (omitted exactly when 1)" % (ver, V), law="version-tag-matches")); continue
        if V < mn:
            fails.append(dict(describe(c.line, a), what="emitted version %d is lower than the RFC 8216 section 7 minimum %d of the written text" % (V, mn), law="sound")); continue
        derived = "ivN" in r.obs
        slack = max(6 if has_map else 1, 2 if derived else 1)
        if V > max(mn, slack):
            dv = bool(re.search(r";v\[1?\]\}", r.obs))
            fails.append(dict(describe(c.line, a), what="emitted version %d exceeds the RFC minimum %d of the written text (documented slack %d)" % (V, mn, slack), law="inflated",
                              default_versions_dropped=dv and V == 5))
    return fails


def c10_canon(raw, keys):
    r = C.Resp(raw)
    if r.status != "ok":
        return r.status
    text = C.unhx(r.get("T", ""))
    vl = [l for l in text.split("\n") if l.startswith("#EXT-X-VERSION:")]
    return "ok V:%s %s" % (r.get("V"), vl)


PROPS["C10"] = {
    "build": c10_build, "gate": {"status"}, "canon": c10_canon, "oracle": c10_oracle,
    "nontrivial": lambda c, a: a.startswith("ok") and " V:1 " not in a,
    "rule": "generated media and master playlists, the repository fixtures, the full on/off lattice of the version-relevant features (IV attribute, fractional EXTINF, BYTERANGE, I-FRAMES-ONLY, KEYFORMAT, KEYFORMATVERSIONS, MAP, a covering key; SERVICE in-stream ids, session keys) and playlists made through the builder; the consecutive-segment families of C03 (a tag the writer decides not to repeat must not leave the version behind); non-trivial = accepted playlist whose required version is above 1",
    "explanation": "theorems: media_version_line / media_version_present / master_version_line (exactly one EXT-X-VERSION line carrying required_version(), omitted iff 1), media_version_sound / master_version_sound (the RFC minimum computed from the WRITTEN typed lines never exceeds the emitted version), media_version_not_inflated_partial (emitted version <= max(RFC minimum, slack) with slack = 6 for any MAP, 2 for a derived IV; hypothesis NoDefaultVersions excludes finding K4, proved as k4_counterexample); the writers are defined through typed lines and rendered by Line.render; oracle: an independent Python scan of the real to_string() text",
    "assumptions": ["the text rendering of each written line is the tag's Display (tied by the correspondence run on the T field in other checks); the gate here compares V and the VERSION line only"],
}


# ------------------------------------------------------------------------------------------
# C20

FMT_RANK = {"identity": 0, "com.apple.streamingkeydelivery": 1, "urn:uuid:edef8ba9-79d6-4ace-a3c8-27dcd51d21ed": 2, "com.microsoft.playready": 3}


def key_sort(k):
    """derived Ord of ExtXKey(Some(DecryptionKey)): method, uri, iv, format, versions"""
    method, uri, iv, fmt = k
    ivk = (0, bytes.fromhex(iv)) if iv else (2, b"")
    fk = (0,) if fmt is None else (1, FMT_RANK.get(fmt, 4), fmt.encode() if fmt not in FMT_RANK else b"")
    return (0 if method == "AES-128" else 1, uri.encode(), ivk, fk)


def c20_content(rng, allow_k3=False):
    n = rng.randint(0, 5)
    c = {"td": rng.choice([10, 10, 30, 1]), "ms": rng.choice([None, 0, 5, 2**32]), "ds": rng.choice([None, 3]), "pt": rng.choice([None, "VOD", "EVENT"]),
         "ifo": rng.random() < 0.2, "ind": False, "end": rng.random() < 0.5, "start": rng.choice([None, ("3fc00000", 1), ("c1200000", 0)]),
         "unk": ["#EXT-X-CUSTOM:%d" % i for i in range(rng.choice([0, 0, 1, 2]))], "segs": []}
    cur, marker = {}, False
    prev = None
    for i in range(n):
        events = []
        for _ in range(rng.choice([0, 0, 1, 1, 2])):
            if rng.random() < 0.15:
                events.append(None)
            else:
                fmt = rng.choice([None, None, "identity", "f2", "com.apple.streamingkeydelivery"])
                events.append((rng.choice(["AES-128", "AES-128", "SAMPLE-AES"]), rng.choice(["k1", "k2", "kü"]), ("%032x" % rng.getrandbits(128)) if rng.random() < 0.3 else None, fmt))
        for k in events:
            if k is None:
                cur, marker = {}, True
            else:
                if marker:
                    cur, marker = {}, False
                cur = dict(cur); cur[NF[k[3]]] = k
        keys = None if marker else sorted(cur.values(), key=key_sort)
        uri = rng.choice(["a.ts", "b.ts", "c%d.ts" % i])
        br = None
        r = rng.random()
        if r < 0.25:
            br = ("E", rng.randint(1, 1000), rng.randint(0, 10**6))
        elif r < 0.4 and prev is not None and prev["br"] is not None and prev["uri"] == uri:
            br = ("I", rng.randint(1, 1000), None)
        dur = rng.choice([NS, 2500000000, 9009000000, c["td"] * NS, c["td"] * NS + 499999999, rng.randint(0, c["td"] * NS)])
        if rng.random() < 0.03:
            dur = c["td"] * NS + 500000000       # too long: both paths must reject
        seg = {"events": events, "keys": keys, "uri": uri, "br": br, "dur": dur, "title": rng.choice([None, None, "t", "a b"]),
               "disc": rng.random() < 0.15, "pdt": rng.choice([None, None, "2010-02-19T14:54:23.031+08:00"]),
               "map": rng.choice([None, None, None, ("init.mp4", None), ("init.mp4", (10, 5))])}
        c["segs"].append(seg); prev = seg
    return c


def c20_k3_free(c):
    prev = None
    for s in c["segs"]:
        if s["keys"] is not None and prev is not None and prev != "MARK":
            if not {NF[k[3]] for k in prev} <= {NF[k[3]] for k in s["keys"]}:
                return False
        prev = "MARK" if s["keys"] is None else s["keys"]
    return True


def c20_text(c):
    ls = ["#EXTM3U", "#EXT-X-TARGETDURATION:%d" % c["td"]]
    if c["ms"] is not None: ls.append("#EXT-X-MEDIA-SEQUENCE:%d" % c["ms"])
    if c["ds"] is not None: ls.append("#EXT-X-DISCONTINUITY-SEQUENCE:%d" % c["ds"])
    if c["pt"]: ls.append("#EXT-X-PLAYLIST-TYPE:" + c["pt"])
    if c["ifo"]: ls.append("#EXT-X-I-FRAMES-ONLY")
    if c["start"]:
        import struct
        v = struct.unpack(">f", bytes.fromhex(c["start"][0]))[0]
        ls.append("#EXT-X-START:TIME-OFFSET=%r%s" % (v, ",PRECISE=YES" if c["start"][1] else ""))
    for s in c["segs"]:
        for k in s["events"]:
            ls.append(key_line(k))
        if s["map"]:
            ls.append('#EXT-X-MAP:URI="%s"' % s["map"][0] + (',BYTERANGE="%d@%d"' % s["map"][1] if s["map"][1] else ""))
        if s["br"]:
            ls.append("#EXT-X-BYTERANGE:%d" % s["br"][1] + ("@%d" % s["br"][2] if s["br"][0] == "E" else ""))
        if s["disc"]: ls.append("#EXT-X-DISCONTINUITY")
        if s["pdt"]: ls.append("#EXT-X-PROGRAM-DATE-TIME:" + s["pdt"])
        ls.append("#EXTINF:%s,%s" % (dec9(s["dur"]), s["title"] or ""))
        ls.append(s["uri"])
    ls += c["unk"]
    if c["end"]: ls.append("#EXT-X-ENDLIST")
    return "\n".join(ls) + "\n"


def c20_seg_script(s, num=None):
    t = ["dur=%d" % s["dur"]]
    if s["title"]: t.append("title=" + C.hx(s["title"]))
    t.append("uri=" + C.hx(s["uri"]))
    if num is not None: t.append("num=%d" % num)
    if s["br"]: t.append("br=%d" % s["br"][1] + ("@%d" % s["br"][2] if s["br"][0] == "E" else ""))
    if s["disc"]: t.append("disc=1")
    if s["pdt"]: t.append("pdt=" + C.hx(s["pdt"]))
    if s["map"]: t.append("map=" + C.hx(s["map"][0]) + (":%d@%d" % s["map"][1] if s["map"][1] else ""))
    if s["keys"] is None:
        t.append("key=none")
    else:
        for (method, uri, iv, fmt) in s["keys"]:
            t.append("key=%s:%s:%s:%s:-" % ("aes" if method == "AES-128" else "saes", C.hx(uri), iv or "-", C.hx(fmt) if fmt is not None else "-"))
    return " ".join(t)


def c20_script(rng, c, mode):
    calls = ["td %d" % (c["td"] * NS)]
    if c["ms"] is not None: calls.append("ms %d" % c["ms"])
    if c["ds"] is not None: calls.append("ds %d" % c["ds"])
    if c["pt"]: calls.append("pt " + c["pt"])
    if c["ifo"]: calls.append("ifo 1")
    if c["start"]: calls.append("start %s %d" % c["start"])
    if c["end"]: calls.append("end 1")
    if c["unk"]: calls.append("unk " + " ".join(C.hx(u) for u in c["unk"]))
    if mode.endswith("+defaults"):
        # every setter the content does not need, called with the field's DEFAULT value (`has_independent_segments(false)`, …): the
        # same playlist as without the call - a rule keyed on "was the setter called" instead of on the value shows here
        mode = mode[:-len("+defaults")]
        if c["ms"] is None: calls.append("ms 0")
        if c["ds"] is None: calls.append("ds 0")
        if not c["ifo"]: calls.append("ifo 0")
        if not c["end"]: calls.append("end 0")
        calls += ["ind 0", "ex 0"]
        if not c["unk"]: calls.append("unk")
    segcalls = []
    if mode == "segs":
        segcalls = ["segs" + (" " + " | ".join(c20_seg_script(s) for s in c["segs"]) if c["segs"] else "")]
    else:
        segcalls = ["push " + c20_seg_script(s) for s in c["segs"]]
        if not c["segs"]:
            segcalls = ["segs"]          # `segments` is a required field of the builder: an empty playlist is `segments(vec![])`
    # any interleaving of the setter calls with the (ordered) segment calls
    rng.shuffle(calls)
    out, i, j = [], 0, 0
    while i < len(calls) or j < len(segcalls):
        if j >= len(segcalls) or (i < len(calls) and rng.random() < 0.5):
            out.append(calls[i]); i += 1
        else:
            out.append(segcalls[j]); j += 1
    return "\n".join(out)


def c20_build(ctx):
    rng = ctx.rng
    cases = []
    for i in range(ctx.n(2500, 50000)):
        c = c20_content(rng)
        if not c20_k3_free(c):
            continue
        cases.append(mk("rt_media", c20_text(c), group="text", meta={"pair": i}))
        for mode in ("push", "segs", rng.choice(["push+defaults", "segs+defaults"])):
            cases.append(mk("build_media", c20_script(rng, c, mode), group="builder:" + mode, meta={"pair": i}))
    # explicit numbers: no panic, gap-free, numbering rule
    for i in range(ctx.n(2500, 50000)):
        n = rng.randint(1, 6)
        ms = rng.choice([None, None, 0, 3, 2**40])
        nums = [rng.choice([None, None, rng.randint(0, 8), rng.randint(0, 64)]) for _ in range(n)]
        segs = [{"events": [], "keys": [], "uri": "s%d" % j, "br": None, "dur": NS, "title": None, "disc": False, "pdt": None, "map": None} for j in range(n)]
        mode = rng.choice(["push", "segs"])
        calls = ["td 10000000000"] + (["ms %d" % ms] if ms is not None else [])
        if mode == "push":
            calls += ["push " + c20_seg_script(s, num) for s, num in zip(segs, nums)]
        else:
            calls += ["segs " + " | ".join(c20_seg_script(s, num) for s, num in zip(segs, nums))]
        cases.append(mk("build_media", "\n".join(calls), group="explicit-numbers", meta={"nums": nums, "ms": ms or 0, "mode": mode}))
    # master: builder vs text
    for i in range(ctx.n(1500, 30000)):
        t = G.gen_master(rng, plain=True, features=ctx.features, consistent=(i % 3 != 0), fr3=True)[0]
        lines = [l for l in t.split("\n") if l][1:]
        items, k = [], 0
        while k < len(lines):
            if lines[k].startswith("#EXT-X-STREAM-INF:"):
                items.append(lines[k] + "\n" + lines[k + 1]); k += 2
            else:
                items.append(lines[k]); k += 1
        groups = {"media": [], "variants": [], "sdata": [], "skeys": [], "unk": []}
        other = []
        ok = True
        for it in items:
            if it.startswith("#EXT-X-MEDIA:"): groups["media"].append(it)
            elif it.startswith("#EXT-X-STREAM-INF:") or it.startswith("#EXT-X-I-FRAME-STREAM-INF:"): groups["variants"].append(it)
            elif it.startswith("#EXT-X-SESSION-DATA:"): groups["sdata"].append(it)
            elif it.startswith("#EXT-X-SESSION-KEY:"): groups["skeys"].append(it)
            elif it.startswith("#EXT-X-INDEPENDENT-SEGMENTS"): other.append("ind 1")
            elif it.startswith("#EXT-X-VERSION"): pass
            elif it.startswith("#EXT-X-START"): ok = False
            else: groups["unk"].append(it)
        if not ok:
            continue
        calls = [name + " " + " ".join(C.hx(x) for x in v) for name, v in groups.items() if v] + other
        rng.shuffle(calls)
        cases.append(mk("rt_master", t, group="master-text", meta={"mpair": i}))
        cases.append(mk("build_master", "\n".join(calls), group="master-builder", meta={"mpair": i}))
        # … and with every list setter the content does not need called with an EMPTY list, the flag with `false`
        extra = [name for name, v in groups.items() if not v and name != "variants"] + ([] if "ind 1" in other else ["ind 0"])
        if extra:
            c2 = calls + extra
            rng.shuffle(c2)
            cases.append(mk("build_master", "\n".join(c2), group="master-builder+defaults", meta={"mpair": i}))
    cases += c20_setter_twice()
    # built playlists whose segments never had `keys(..)` called, behind segments with keys (what a user writes for "this one is
    # not encrypted"): the written text must say so, i.e. re-parse to the same effective keys
    hxk = lambda t: t.encode().hex()
    key_tok = lambda u, f=None: "key=aes:%s:-:%s:-" % (hxk(u), hxk(f) if f else "-")
    shapes = [["k", ""], ["k", "", ""], ["k", "", "k"], ["k", "", "l"], ["", "k", ""], ["k", "l", ""], ["k+f", "", ""], ["k+f", "k", ""], ["k", "NONE", ""], ["", ""], ["k", "", "NONE"]]
    for shape in shapes:
        for ms in (None, 3):
            calls = ["td 10000000000"] + (["ms %d" % ms] if ms is not None else [])
            for i, sh in enumerate(shape):
                toks = "dur=1000000000 uri=" + hxk("s%d" % i)
                if sh == "NONE":
                    toks += " key=none"
                elif sh:
                    for part in sh.split("+"):
                        toks += " " + (key_tok("k2", "f") if part == "f" else key_tok(part))
                calls.append("push " + toks)
            cases.append(mk("build_media", "\n".join(calls), group="keys-never-set", meta={"effective": True}))
    # the tag builders against the text of the same content: same acceptance (URIs that are blank in the Unicode sense included)
    hx = lambda t: t.encode().hex()
    n = 10 ** 6
    for uri in ["", " ", " \t", "\u00a0", "\u3000", " \u00a0 ", "\u2003\u00a0", "\u1680", "k", " k ", "\u00a0k\u00a0", "\u200b", "\ufeff", "_"]:
        for method, mt in (("aes", "AES-128"), ("saes", "SAMPLE-AES")):
            n += 1
            cases.append(mk("build_tag:DecryptionKey", "method=%s uri=%s" % (method, hx(uri)), group="tag-builder-vs-text", meta={"twice": n}))
            cases.append(mk("type:DecryptionKey", 'METHOD=%s,URI="%s"' % (mt, uri), group="tag-builder-vs-text", meta={"twice": n}))
    return cases


def strip_explicit(obs):
    return obs


def c20_setter_twice():
    """every setter of every builder called twice with different values must give what one call with the last value gives
    (as every parser does with a repeated attribute / tag)"""
    hx = lambda t: t.encode().hex()
    iv1, iv2 = "00" * 15 + "01", "00" * 15 + "02"
    T = {
        "build_tag:ExtXDateRange": (["id=" + hx("i")], {"id": (hx("i"), hx("j")), "class": (hx("c"), hx("d")), "start": (hx("2010"), hx("2011")), "end": (hx("2010"), hx("2011")),
                                                        "dur": ("1000000000", "2000000000"), "planned": ("1000000000", "2000000000"), "cmd": (hx("0xAB"), hx("0xCD")),
                                                        "out": (hx("0xAB"), hx("0xCD")), "in": (hx("0xAB"), hx("0xCD")), "attr": ("582d41:S" + hx("v"), "582d41:S" + hx("w"))}),
        "build_tag:ExtXMedia": (["type=AUDIO", "group=" + hx("g"), "name=" + hx("n")], {"type": ("VIDEO", "AUDIO"), "uri": (hx("u"), hx("v")), "group": (hx("g"), hx("h")), "lang": (hx("en"), hx("de")),
                                                                                        "assoc": (hx("en"), hx("de")), "name": (hx("n"), hx("m")), "default": ("1", "0"), "autoselect": ("0", "1"),
                                                                                        "forced": ("1", "0"), "chars": (hx("a"), hx("b")), "channels": ("2", "6")}),
        "build_tag:ExtXSessionData": (["id=" + hx("d"), "value=" + hx("v")], {"id": (hx("d"), hx("e")), "value": (hx("v"), hx("w")), "lang": (hx("en"), hx("de"))}),
        "build_tag:DecryptionKey": (["method=aes", "uri=" + hx("k")], {"method": ("saes", "aes"), "uri": (hx("k"), hx("l")), "iv": (iv1, iv2), "format": (hx("f"), hx("g")), "versions": ("1/2", "3")}),
        "build_tag:StreamData": (["bw=1"], {"bw": ("1", "2"), "avg": ("1", "2"), "codecs": (hx("a,b"), hx("c")), "res": ("1x2", "3x4"), "hdcp": ("TYPE-0", "NONE"), "video": (hx("v"), hx("w"))}),
    }
    cases = []
    n = 0
    for op, (base, toks) in T.items():
        for k, (v1, v2) in toks.items():
            rest = [t for t in base if not t.startswith(k + "=")]
            for first, second in ((v1, v2), (v2, v1)):
                n += 1
                cases.append(mk(op, " ".join(rest + ["%s=%s" % (k, first), "%s=%s" % (k, second)]), group="setter-twice", meta={"twice": n}))
                cases.append(mk(op, " ".join(rest + ["%s=%s" % (k, second)]), group="setter-twice", meta={"twice": n}))
    seg = "dur=1000000000 uri=" + hx("a")
    M = {"td": ("10000000000", "11000000000"), "ms": ("5", "0"), "ds": ("1", "0"), "pt": ("VOD", "EVENT"), "ifo": ("1", "0"), "ind": ("1", "0"), "end": ("1", "0"),
         "ex": ("1000000000", "0"), "unk": (hx("#EXT-X-FOO"), hx("#EXT-X-BAR"))}
    for k, (v1, v2) in M.items():
        for first, second in ((v1, v2), (v2, v1)):
            for where in (0, 1):
                n += 1
                pre = [] if k == "td" else ["td 10000000000"]
                two = ["%s %s" % (k, first), "push " + seg, "%s %s" % (k, second)] if where else ["%s %s" % (k, first), "%s %s" % (k, second), "push " + seg]
                cases.append(mk("build_media", "\n".join(pre + two), group="setter-twice", meta={"twice": n}))
                cases.append(mk("build_media", "\n".join(pre + ["%s %s" % (k, second), "push " + seg]), group="setter-twice", meta={"twice": n}))
    # … the setters of the MASTER playlist builder
    hm = lambda t: t.encode().hex()
    m1, m2 = '#EXT-X-MEDIA:TYPE=AUDIO,GROUP-ID="g",NAME="a"', '#EXT-X-MEDIA:TYPE=AUDIO,GROUP-ID="g",NAME="b"'
    v1, v2 = "#EXT-X-STREAM-INF:BANDWIDTH=1\nu", "#EXT-X-STREAM-INF:BANDWIDTH=2\nv"
    d1, d2 = '#EXT-X-SESSION-DATA:DATA-ID="d",VALUE="1"', '#EXT-X-SESSION-DATA:DATA-ID="e",VALUE="2"'
    k1, k2 = '#EXT-X-SESSION-KEY:METHOD=AES-128,URI="k"', '#EXT-X-SESSION-KEY:METHOD=AES-128,URI="l"'
    MM = {"ind": ("1", "0"), "media": (hm(m1), hm(m2)), "media ": (hm(m1) + " " + hm(m2), hm(m2)), "variants": (hm(v1), hm(v2)), "variants ": (hm(v1) + " " + hm(v2), hm(v1)),
          "sdata": (hm(d1), hm(d2)), "skeys": (hm(k1), hm(k2)), "unk": (hm("#EXT-X-FOO"), hm("#EXT-X-BAR"))}
    for k, (a1, a2) in MM.items():
        k = k.strip()
        for first, second in ((a1, a2), (a2, a1)):
            base = [] if k == "variants" else ["variants " + hm(v1)]
            n += 1
            cases.append(mk("build_master", "\n".join(base + ["%s %s" % (k, first), "%s %s" % (k, second)]), group="master-setter-twice", meta={"twice": n}))
            cases.append(mk("build_master", "\n".join(["%s %s" % (k, first)] + base + ["%s %s" % (k, second)]), group="master-setter-twice", meta={"twice": n}))
            cases.append(mk("build_master", "\n".join(base + ["%s %s" % (k, second)]), group="master-setter-twice", meta={"twice": n}))
    # … and the setters of the SEGMENT builder (number(None) after number(Some(n)) takes the explicit number back), with the segment
    # first, second or alone, handed over by push_segment or by segments(), under a media sequence of 0 or 5
    S = {"uri": (hx("b"), hx("c")), "dur": ("1000000000", "2000000000"), "num": ("1", "0"), "num ": ("7", "none"), "num  ": ("none", "1"), "num   ": ("0", "none"),
         "br": ("5@0", "7@1"), "br ": ("5@0", "7"), "pdt": (hx("2010-02-19T14:54:23.031+08:00"), hx("2011-02-19T14:54:23.031+08:00")),
         "map": (hx("i"), hx("j")), "map ": (hx("i") + ":5@0", hx("i"))}
    other = "dur=1000000000 br=3@0 uri=" + hx("a")
    for k, (v1, v2) in S.items():
        k = k.strip()
        for first, second in ((v1, v2), (v2, v1)):
            for shape in ("alone", "first", "second", "segs"):
                for ms in ("0", "5"):
                    def script(toks):
                        sg = " ".join(["dur=1000000000", "uri=" + hx("b")] + toks)
                        body = {"alone": ["push " + sg], "first": ["push " + sg, "push " + other], "second": ["push " + other, "push " + sg],
                                "segs": ["segs " + other + " | " + sg]}[shape]
                        return "\n".join(["td 10000000000", "ms " + ms] + body)
                    n += 1
                    cases.append(mk("build_media", script(["%s=%s" % (k, first), "%s=%s" % (k, second)]), group="segment-setter-twice", meta={"twice": n}))
                    cases.append(mk("build_media", script(["%s=%s" % (k, second)]), group="segment-setter-twice", meta={"twice": n}))
                    if second == "none":
                        cases.append(mk("build_media", script([]), group="segment-setter-twice", meta={"twice": n}))
    return cases


def c20_oracle(ctx, cases, impl, model):
    fails = []
    pairs, mpairs = {}, {}
    twice = {}
    for c, a in zip(cases, impl):
        if "twice" in c.meta:
            twice.setdefault(c.meta["twice"], []).append((c, a))
    for n, items in twice.items():
        if len(items) == 2 and C.project(items[0][1], {"status", "obs"}) != C.project(items[1][1], {"status", "obs"}):
            d = describe(items[0][0].line, items[0][1])
            d["context_lines"] = [items[1][0].line]
            what = "builder and text of the same content disagree" if items[0][0].group == "tag-builder-vs-text" else "calling a setter twice does not give what the last call alone gives"
            fails.append(dict(d, what="%s: %s" % (items[0][0].op, what), law="setter-last-wins" if "twice" in what else "builder-text-agree"))
    for c, a in zip(cases, impl):
        r = C.Resp(a)
        if r.status == "panic":
            fails.append(dict(describe(c.line, a), what="%s panicked on an in-domain call sequence" % c.op, law="no-panic")); continue
        if r.status == "bad-op":
            fails.append(dict(describe(c.line, a), what="harness rejected a generated script", law="harness")); continue
        if c.meta.get("effective") and r.status == "ok":
            rr = r.get("R")
            unmark = lambda o: o.replace("[K0]", "[]")          # "explicitly not encrypted" and "no key" are the same effective keys
            if rr != "=" and (rr in ("err", "panic", None) or unmark(rr) != unmark(r.obs)):
                fails.append(dict(describe(c.line, a), what="the text written for a built playlist re-parses to other content (effective keys per segment included): %s" % str(rr)[:200],
                                  law="built-text-content"))
        if "pair" in c.meta:
            pairs.setdefault(c.meta["pair"], []).append((c, a, r))
        if "mpair" in c.meta:
            mpairs.setdefault(c.meta["mpair"], []).append((c, a, r))
        if c.group == "explicit-numbers" and r.status == "ok":
            m = Media(r.obs)
            nums, ms = c.meta["nums"], c.meta["ms"]
            for pos, s in enumerate(m.segments):
                j = int(s.uri[1:])
                want = nums[j] if nums[j] is not None else ms + pos
                if s.number != want or s.explicit != (nums[j] is not None):
                    fails.append(dict(describe(c.line, a), what="built segment %s at position %d has number %d (explicit=%s), expected %d" % (s.uri, pos, s.number, s.explicit, want), law="numbering")); break
        if c.op.startswith("build_") and r.status == "ok" and c.group in ("builder:push", "builder:segs", "master-builder"):
            if r.get("R") != "=":
                muk = False
                if r.obs.startswith("M{"):
                    muk = any(sg.map is not None and len(sg.keys) > 0 and len(sg.map[2].items) == 0 for sg in Media(r.obs).segments)
                k4 = (not muk) and r.get("R") not in ("err", "panic") and re.sub(r";v\[1?\]\}", ";-}", r.obs) == re.sub(r";v\[1?\]\}", ";-}", r.get("R"))
                fails.append(dict(describe(c.line, a), what="the serialisation of a built value does not parse back to its content (%s)" % ("error" if r.get("R") == "err" else "different content"), law="built-roundtrip",
                                  built_map_under_keys=muk, default_versions_dropped=k4))
    for group in (pairs, mpairs):
        for k, items in group.items():
            sts = {x[2].status for x in items}
            if len(sts) > 1:
                c, a, _ = items[0]
                d = describe(c.line, a); d["context_lines"] = [x[0].line for x in items[1:]]
                fails.append(dict(d, what="builder and text path disagree on acceptance: %s" % [(x[0].op, x[2].status) for x in items], law="accept-agree")); continue
            if sts == {"ok"}:
                obs = {x[2].obs for x in items}
                if len(obs) > 1:
                    c, a, _ = items[0]
                    d = describe(c.line, a); d["context_lines"] = [x[0].line for x in items[1:]]
                    muk = False
                    for x in items:
                        if x[0].op == "build_media":
                            muk = muk or any(sg.map is not None and len(sg.keys) > 0 and len(sg.map[2].items) == 0 for sg in Media(x[2].obs).segments)
                    fails.append(dict(d, what="builder and text path give different observable content", law="content-agree", built_map_under_keys=muk))
    return fails


@classifier("K9-built-map-has-no-keys")
def _k9(f):
    return f.get("built_map_under_keys") is True


PROPS["C20"] = {
    "build": c20_build, "gate": {"status", "obs", "V", "D", "A", "R"}, "oracle": c20_oracle,
    "nontrivial": lambda c, a: a.startswith("ok") and c.op.startswith("build_"),
    "rule": "abstract media playlists (header fields, 0-5 segments with key histories over 4 formats / NONE / explicit IVs, byte ranges explicit and offset-less, maps, titles, dates, a too-long segment now and then, unknown tags) realised (a) as text, (b) as builder scripts with the setter calls shuffled and interleaved with push_segment calls, (c) the same with segments(vec); builder scripts with explicit segment numbers up to 64 through both push_segment and segments; master playlists (consistent and inconsistent) as text and as MasterPlaylistBuilder scripts with shuffled setters; every setter of every builder called twice with different values against the last call alone; tag builders against the text of the same content (Unicode-blank URIs); built playlists with keyed segments followed by segments on which keys(..) was never called; non-trivial = successfully built value",
    "explanation": "segment_number_last_wins / segment_number_none_resets / segment_number_some (MediaSegmentBuilder::number: the last call decides, None takes an explicit number back); theorems: setters_commute, setter_last_wins, setter_push_commute, setters_then_pushes (any interleaving of setter calls with pushes gives the same builder), pushes_eq_segments, parser_is_builder / builder_text_agree (the parser ends in build() of exactly that builder state, so acceptance and value coincide for implicitly numbered content), build_never_panics, built_numbering (gap-free, implicit = media_sequence + position, explicit preserved), master_parser_is_builder, master_build_never_panics; tag builders: C14; oracle: same acceptance and same observation for the three realisations of each content, numbering rule on explicit numbers, serialisation of every built value re-parses to its content",
    "assumptions": ["key histories are restricted to those the writer can express (recorded finding K3 is C03's subject)", "explicit numbers are in-domain up to 64 (a huge explicit number makes StableVec::reserve_for allocate that many slots)"],
}


# ------------------------------------------------------------------------------------------
# C12 — presentation invariance (transformations written here, independently of the model)

C12_ATTR_TAGS = ["#EXT-X-KEY:", "#EXT-X-MAP:", "#EXT-X-DATERANGE:", "#EXT-X-START:", "#EXT-X-MEDIA:", "#EXT-X-STREAM-INF:",
                 "#EXT-X-I-FRAME-STREAM-INF:", "#EXT-X-SESSION-DATA:", "#EXT-X-SESSION-KEY:"]
C12_HDR = ["#EXT-X-TARGETDURATION:", "#EXT-X-MEDIA-SEQUENCE:", "#EXT-X-ENDLIST", "#EXT-X-PLAYLIST-TYPE:", "#EXT-X-I-FRAMES-ONLY",
           "#EXT-X-INDEPENDENT-SEGMENTS", "#EXT-X-START:"]
C12_SEGTAG = ["#EXTINF:", "#EXT-X-BYTERANGE:", "#EXT-X-DISCONTINUITY", "#EXT-X-PROGRAM-DATE-TIME:", "#EXT-X-DATERANGE:"]
C12_WS = [" ", "\t", "  ", " ", " ", "\x0b"]


def c12_split_attrs(s):
    """top-level split of an attribute list at commas outside double quotes; None when the quotes do not balance"""
    out, cur, q = [], "", False
    for ch in s:
        if ch == '"':
            q = not q
        if ch == "," and not q:
            out.append(cur); cur = ""
        else:
            cur += ch
    if q:
        return None
    out.append(cur)
    pairs = []
    for p in out:
        if "=" not in p:
            return None
        k, v = p.split("=", 1)
        if k != k.strip() or v != v.strip() or not k or not v:
            return None
        pairs.append((k, v))
    return pairs


def c12_kind(line):
    """coarse classification of a logical (trimmed, non-empty) line"""
    if not line.startswith("#"):
        return "uri"
    if not line.startswith("#EXT"):
        return "comment"
    if line.startswith("#EXT-X-DISCONTINUITY-SEQUENCE:"):
        return "dseq"
    if line.startswith("#EXT-X-VERSION:"):
        return "version"
    for p in C12_HDR:
        if line.startswith(p):
            return "hdr:" + p
    for p in C12_SEGTAG:
        if line.startswith(p):
            return "seg:" + p
    if line.startswith("#EXT-X-KEY:"):
        return "key"
    if line.startswith("#EXT-X-MAP:"):
        return "map"
    for p in ["#EXT-X-MEDIA:", "#EXT-X-STREAM-INF:", "#EXT-X-I-FRAME-STREAM-INF:", "#EXT-X-SESSION-DATA:", "#EXT-X-SESSION-KEY:", "#EXTM3U"]:
        if line.startswith(p):
            return "m:" + p
    return "unknown"


def c12_attr_variant(rng, line, ops):
    for p in C12_ATTR_TAGS:
        if line.startswith(p):
            pairs = c12_split_attrs(line[len(p):])
            if pairs is None:
                return line
            names = [k for k, _ in pairs]
            if "shuffle" in ops and len(set(names)) == len(names):
                rng.shuffle(pairs)
            if "unknown-attr" in ops:
                for _ in range(rng.randint(1, 2)):
                    # anywhere in the list, the first and the last place included
                    pairs.insert(rng.choice([0, len(pairs), rng.randint(0, len(pairs))]), G.unknown_attr(rng, pairs, client_prefix_ok=not p.startswith("#EXT-X-DATERANGE")))
            if "pad-attr" in ops:
                # white space in the sense of `str::trim` (Unicode), not only the ASCII blanks
                w = lambda: rng.choice(["", "", "", " ", "\t", "  ", "\u00a0", "\u3000", "\u2003", "\u0085", "\x0b", "\x0c", "\u2028", " \u00a0 ", "\u1680"])
                return p + ",".join(w() + k + w() + "=" + w() + v + w() for k, v in pairs)
            return p + ",".join(k + "=" + v for k, v in pairs)
    return line


def c12_logical(text):
    """logical lines of a text: trimmed, non-empty (this is RFC 8216 section 4.1, not the model)"""
    return [l.strip() for l in text.replace("\r\n", "\n").split("\n") if l.strip()]


def c12_units(lines):
    """group STREAM-INF with its URI"""
    out, i = [], 0
    while i < len(lines):
        if lines[i].startswith("#EXT-X-STREAM-INF:") and i + 1 < len(lines):
            out.append([lines[i], lines[i + 1]]); i += 2
        else:
            out.append([lines[i]]); i += 1
    return out


def c12_reorder_media(rng, lines, ops):
    body = lines[1:]
    kinds = [c12_kind(l) for l in body]
    if "hdr-order" in ops:
        hk = [k for k in kinds if k.startswith("hdr:")]
        if len(set(hk)) == len(hk):
            hdr = [l for l, k in zip(body, kinds) if k.startswith("hdr:")]
            rest = [l for l, k in zip(body, kinds) if not k.startswith("hdr:")]
            rng.shuffle(hdr)
            for h in hdr:
                rest.insert(rng.randint(0, len(rest)), h)
            body = rest
            kinds = [c12_kind(l) for l in body]
    if "seg-order" in ops:
        out, group = [], []
        for l, k in zip(body, kinds):
            if k == "uri":
                gk = [c12_kind(x) for x in group]
                # EXT-X-DISCONTINUITY-SEQUENCE must stay in front of EXT-X-DISCONTINUITY: only the part behind it moves
                cut = max([i + 1 for i, y in enumerate(gk) if y == "dseq"] + [0])
                head, group, gk = group[:cut], group[cut:], gk[cut:]
                mov = [x for x, y in zip(group, gk) if y.startswith("seg:")]
                mk_ = [y for y in gk if y.startswith("seg:")]
                if len(set(mk_)) == len(mk_):
                    fixed = [x for x, y in zip(group, gk) if not y.startswith("seg:")]
                    rng.shuffle(mov)
                    for m in mov:
                        fixed.insert(rng.randint(0, len(fixed)), m)
                    group = fixed
                out += head + group + [l]
                group = []
            else:
                group.append(l)
        body = out + group
    return [lines[0]] + body


def c12_reorder_master(rng, lines, ops):
    if "hdr-order" not in ops:
        return lines
    units = c12_units(lines[1:])

    def kind(u):
        k = c12_kind(u[0])
        if k in ("m:#EXT-X-STREAM-INF:", "m:#EXT-X-I-FRAME-STREAM-INF:"):
            return "variant"
        return k
    ks = [kind(u) for u in units]
    for single in ("hdr:#EXT-X-INDEPENDENT-SEGMENTS", "hdr:#EXT-X-START:"):
        if ks.count(single) > 1:
            return lines
    queues = {}
    for u, k in zip(units, ks):
        queues.setdefault(k, []).append(u)
    order = ks[:]
    rng.shuffle(order)
    out = []
    for k in order:
        out += queues[k].pop(0)
    return [lines[0]] + out


def c12_layout(rng, lines, ops):
    out = []
    after_si = False
    for ln in lines:
        if not after_si and out:
            if "comments" in ops and rng.random() < 0.3:
                out.append(rng.choice(["# comment", "#", "## x", "#ext-lower", "#EX", "#comment with , = \" chars"]))
            if "version" in ops and rng.random() < 0.2:
                out.append("#EXT-X-VERSION:%d" % rng.randint(1, 7))
        if out and "blank-lines" in ops and rng.random() < 0.3:
            out.append(rng.choice(["", "   ", "\t", " "]))
        after_si = ln.startswith("#EXT-X-STREAM-INF:")
        if "pad-line" in ops and rng.random() < 0.5 and out:
            ln = rng.choice(["", " ", "\t", "  "]) + ln + rng.choice(["", " ", "\t", " "])
        out.append(ln)
    if "version" in ops:
        def valid(i):
            j = i - 1
            while j >= 0 and not out[j].strip():
                j -= 1
            return j >= 0 and not out[j].strip().startswith("#EXT-X-STREAM-INF:")
        spots = [i for i in range(1, len(out) + 1) if valid(i)]
        if spots:
            out.insert(rng.choice(spots), "#EXT-X-VERSION:%d" % rng.randint(1, 7))
    nl = "\r\n" if "crlf" in ops else "\n"
    text = nl.join(out)
    if "trailing" in ops:
        text += rng.choice(["", nl, nl + nl, " " + nl + "\t", nl + "  "])
    else:
        text += nl
    return text


C12_OPS = ["shuffle", "unknown-attr", "pad-attr", "hdr-order", "seg-order", "comments", "version", "blank-lines", "pad-line", "crlf", "trailing"]


def c12_variant(rng, base_lines, is_media, ops):
    lines = [c12_attr_variant(rng, l, ops) for l in base_lines]
    lines = c12_reorder_media(rng, lines, ops) if is_media else c12_reorder_master(rng, lines, ops)
    return c12_layout(rng, lines, ops)


def c12_insert_unknown(rng, base_lines):
    units = c12_units(base_lines)
    n = rng.randint(1, 3)
    tags = []
    for i in range(n):
        t = rng.choice(["#EXT-X-FOO:%d" % i, "#EXT-UNKNOWN-%d" % i, "#EXT-X-CUSTOM-%d:A=1,B=\"x,y\"" % i, "#EXTX%d" % i])
        tags.append(t)
    pos = sorted(rng.randint(1, len(units)) for _ in tags)
    out = []
    ti = 0
    for i, u in enumerate(units):
        while ti < len(tags) and pos[ti] == i:
            out.append(tags[ti]); ti += 1
        out += u
    out += tags[ti:]
    return "\n".join(out) + "\n", tags


def c12_build(ctx):
    rng = ctx.rng
    cases = []
    bases = []
    for t in corpus_texts():
        bases.append(("media" if ("#EXTINF" in t or "TARGETDURATION" in t) else "master", t, "corpus"))
    for _ in range(ctx.n(700, 12000)):
        bases.append(("media", G.gen_media(rng, plain=True, features=ctx.features)[0], "generated"))
    for _ in range(ctx.n(500, 9000)):
        bases.append(("master", G.gen_master(rng, plain=True, features=ctx.features, fr3=True)[0], "generated"))
    for _ in range(ctx.n(100, 2000)):
        bases.append(("media", G.gen_media(rng, features=ctx.features)[0], "generated-layout"))
    bi = 0
    for op, text, src in bases:
        lines = c12_logical(text)
        if not lines or lines[0] != "#EXTM3U":
            continue
        bi += 1
        gid = "b%d" % bi
        cases.append(mk(op, text, group="base-" + src, meta={"base": gid, "role": "base"}))
        # single transformations, then compositions
        nsingle = ctx.n(3, 6)
        for o in rng.sample(C12_OPS, nsingle):
            cases.append(mk(op, c12_variant(rng, lines, op == "media", {o}), group="single:" + o, meta={"base": gid, "role": "variant", "ops": [o]}))
        for _ in range(ctx.n(2, 6)):
            ops = set(rng.sample(C12_OPS, rng.randint(2, len(C12_OPS))))
            cases.append(mk(op, c12_variant(rng, lines, op == "media", ops), group="composition", meta={"base": gid, "role": "variant", "ops": sorted(ops)}))
        t2, tags = c12_insert_unknown(rng, lines)
        cases.append(mk(op, t2, group="unknown-tags", meta={"base": gid, "role": "unknown", "tags": tags}))
    # unknown attributes, systematically: next to every attribute of one representative line per tag, a NEAR MISS of its name
    # (prefix, suffix, other case, a letter less) carrying that attribute's own value or a keyword, in first and in last place
    wrap = {"ExtXKey": ("media", "#EXTM3U\n#EXT-X-TARGETDURATION:10\n%s\n#EXTINF:1,\ns\n#EXTINF:1,\nt\n"), "ExtXMap": ("media", "#EXTM3U\n#EXT-X-TARGETDURATION:10\n%s\n#EXTINF:1,\ns\n"),
            "ExtXDateRange": ("media", "#EXTM3U\n#EXT-X-TARGETDURATION:10\n%s\n#EXTINF:1,\ns\n"), "ExtXStart": ("media", "#EXTM3U\n#EXT-X-TARGETDURATION:10\n%s\n#EXTINF:1,\ns\n"),
            "ExtXMedia": ("master", "#EXTM3U\n%s\n"), "ExtXSessionData": ("master", "#EXTM3U\n%s\n"), "ExtXSessionKey": ("master", "#EXTM3U\n%s\n"), "VariantStream": ("master", "#EXTM3U\n%s\n")}
    seeds = [(n, t) for n, ts in TAG_SEEDS.items() for t in ts if n in wrap]
    seeds += [("ExtXKey", '#EXT-X-KEY:METHOD=SAMPLE-AES,URI="k",KEYFORMAT="f",KEYFORMATVERSIONS="1/2"'), ("ExtXSessionData", '#EXT-X-SESSION-DATA:DATA-ID="d",URI="u"'),
              ("ExtXMedia", '#EXT-X-MEDIA:TYPE=SUBTITLES,URI="u",GROUP-ID="g",NAME="n",FORCED=YES,AUTOSELECT=YES'),
              ("ExtXStart", "#EXT-X-START:TIME-OFFSET=1"), ("ExtXKey", '#EXT-X-KEY:METHOD=AES-128,URI="k"'),
              ("VariantStream", '#EXT-X-STREAM-INF:BANDWIDTH=2,AVERAGE-BANDWIDTH=1,HDCP-LEVEL=TYPE-0,VIDEO="v"\nuri')]
    for name, line in seeds:
        op, frame = wrap[name]
        first, _, rest = line.partition("\n")
        head, _, body = first.partition(":")
        pairs = c12_split_attrs(body)
        if pairs is None:
            continue
        bi += 1
        gid = "b%d" % bi
        cases.append(mk(op, frame % line, group="base-tag", meta={"base": gid, "role": "base"}))
        # white space (in the sense of `str::trim`: the Unicode blanks too) on either side of every name and every value
        for i, (k, v) in enumerate(pairs):
            for b in (" ", "\t", "\u00a0", "\u3000", "\u2003", "\u0085", "\x0b", "\x0c", "\u2028", "\u1680", "\u205f"):
                for where in range(4):
                    kk, vv = (b + k if where == 0 else k + b if where == 1 else k), (b + v if where == 2 else v + b if where == 3 else v)
                    q = pairs[:i] + [(kk, vv)] + pairs[i + 1:]
                    l2 = head + ":" + ",".join("%s=%s" % kv for kv in q) + (("\n" + rest) if rest else "")
                    cases.append(mk(op, frame % l2, group="blank-around-name-or-value", meta={"base": gid, "role": "variant", "ops": ["pad-attr:%r %d at %s" % (b, where, k)]}))
        for k, v in pairs:
            forms = [k + "X", "MY-" + k, "Y" + k, k.lower(), k.title(), k + "S", k[:-1] if len(k) > 2 else k + "Q"] + ([] if name == "ExtXDateRange" else ["X-" + k, "X" + k])
            for nm in forms:
                if nm in G.ALL_ATTR_NAMES or (name == "ExtXDateRange" and nm.upper().startswith("X-")):
                    continue
                for val in dict.fromkeys([v, "NONE", "YES", "NO", '""', "0"]):
                    for place in ("first", "last"):
                        q = [(nm, val)] + pairs if place == "first" else pairs + [(nm, val)]
                        l2 = head + ":" + ",".join("%s=%s" % kv for kv in q) + (("\n" + rest) if rest else "")
                        cases.append(mk(op, frame % l2, group="unknown-attr-systematic", meta={"base": gid, "role": "variant", "ops": ["unknown-attr:%s=%s %s" % (nm, val, place)]}))
    return cases


def c12_content(raw):
    r = C.Resp(raw)
    if r.status != "ok":
        return (r.status,)
    return ("ok", r.obs, r.get("D"), r.get("A"), r.get("E"))


def c12_unknown_field(obs):
    f = split_top(obs[2:-1], ";")
    idx = 9 if obs.startswith("M{") else 6
    unk = [C.unhx(x[1:]) for x in split_top(f[idx][1:-1]) if x]
    f[idx] = "[]"
    return obs[:2] + ";".join(f) + "}", unk


def c12_oracle(ctx, cases, impl, model):
    fails = []
    base = {}
    for c, a in zip(cases, impl):
        if c.meta.get("role") == "base":
            base[c.meta["base"]] = (c, a)
    for c, a in zip(cases, impl):
        role = c.meta.get("role")
        if role == "base":
            continue
        bc, ba = base[c.meta["base"]]
        rb, ra = C.Resp(ba), C.Resp(a)
        if ra.status == "panic":
            fails.append(dict(describe(c.line, a), what="panicked", law="no-panic")); continue
        if rb.status != "ok":
            continue      # the property speaks about accepted texts
        if role == "variant":
            if c12_content(a) != c12_content(ba):
                fails.append(dict(describe(c.line, a), what="the transformed text (%s) does not parse to the value of the original" % ",".join(c.meta["ops"]),
                                  law="invariance", ops=c.meta["ops"], original=bc.payload, original_result=ba[:3000]))
        else:
            if ra.status != "ok":
                fails.append(dict(describe(c.line, a), what="inserting unknown #EXT tags made the playlist unacceptable", law="unknown-tags", original=bc.payload)); continue
            o1, u1 = c12_unknown_field(ra.obs)
            o0, u0 = c12_unknown_field(rb.obs)
            if o1 != o0 or (ra.get("D"), ra.get("A")) != (rb.get("D"), rb.get("A")):
                fails.append(dict(describe(c.line, a), what="inserting unknown #EXT tags changed more than the list of unknown tags", law="unknown-tags", original=bc.payload, original_result=ba[:3000])); continue
            # the list is the old one with the new tags merged in, source order
            if sorted(u1) != sorted(u0 + c.meta["tags"]) or [x for x in u1 if x in c.meta["tags"]] != c.meta["tags"] or [x for x in u1 if x not in c.meta["tags"]] != u0:
                fails.append(dict(describe(c.line, a), what="the unknown-tag list is not the source-order list of the unknown lines", law="unknown-tags", original=bc.payload))
    return fails


PROPS["C12"] = {
    "build": c12_build, "gate": {"status", "obs", "D", "A"}, "oracle": c12_oracle,
    "nontrivial": lambda c, a: a.startswith("ok") and c.meta.get("role") != "base",
    "rule": "accepted base texts (repository fixtures, generated media and master playlists) and, for each, single and composed transformations written independently of the model: attribute shuffle, unknown attributes, blanks around = and , , relative order of playlist-level tags, order of the non-key segment tags, comment lines, redundant EXT-X-VERSION tags, blank lines, line padding (ASCII and Unicode white space), CRLF, trailing white space / missing final newline; plus insertion of unknown #EXT tags; unknown attributes are mostly near misses of the tag's own attribute names (prefix / suffix added, other letter case) with values copied from the list or keywords, also in first and last place; non-trivial = accepted transformed text",
    "explanation": "theorems (Props/C12.lean): media_neutral_lines / master_neutral_lines (comments, EXT-X-VERSION), inf_position_irrelevant (EXTINF may stand anywhere among the KEY / MAP / BYTERANGE / DISCONTINUITY / PROGRAM-DATE-TIME / DATERANGE lines of its segment), media_rearrangement / master_rearrangement (any sequence of swaps of adjacent independent lines: playlist-level tags among each other and with segment tags, non-key segment tags among each other; mediaStep_comm is checked for all 23x23 line kinds), media_unknown_tags / master_unknown_tags, the closed forms of all eight attribute loops (Proofs/AttrFold.lean: every field is a function of the last value written for its name) giving *_attr_layout for MAP, DATERANGE incl. client attributes, START, MEDIA, SESSION-DATA, KEY incl. METHOD=NONE, SESSION-KEY, StreamData under AttrEquiv (permutation without repeated names, unknown attributes free), attrEquiv_padded via attrPairs_render (blanks around names, =, values and ,), media_lines_layout / master_lines_layout + lines_seen, crlf_irrelevant, blank_lines_irrelevant, line_padding_irrelevant, trailing_space_irrelevant (the complete string-level parsers depend on the text only through its trimmed non-empty lines). Tie: every base and every transformed text must give the same status and observation on library and model; oracle (implementation only): each transformed text parses to the observation of its original.",
    "assumptions": ["the transformations of the oracle stream are written in Python from RFC 8216 section 4, not taken from the model"],
}


# ------------------------------------------------------------------------------------------
# C04 — master playlist: serialise -> parse

def c04_rich_master(rng):
    """attribute combinations the fixtures never write and read back: I-frame stream with HDCP-LEVEL and VIDEO, rendition with
    CHANNELS and CHARACTERISTICS, closed captions NONE next to group ids (in different playlists), every in-stream id, session keys of all formats"""
    ls = ["#EXTM3U"]
    vids = ["v1", "v,2", "日本=x"]
    for g in vids:
        ls.append('#EXT-X-MEDIA:TYPE=VIDEO,GROUP-ID="%s",NAME="%s"%s%s%s' % (g, G.qs(rng), rng.choice(["", ',URI="u.m3u8"']),
                  rng.choice(["", ',CHANNELS="6"', ',CHANNELS="16/JOC"']), rng.choice(["", ',CHARACTERISTICS="public.a,public.b"'])))
    auds = ["a1", "NONE"]
    for g in auds:
        ls.append('#EXT-X-MEDIA:TYPE=AUDIO,GROUP-ID="%s",NAME="%s",LANGUAGE="%s"%s%s' % (g, G.qs(rng), rng.choice(["en", "de"]), rng.choice(["", ',ASSOC-LANGUAGE="fr"']),
                  rng.choice(["", ",DEFAULT=YES,AUTOSELECT=YES", ",AUTOSELECT=YES", ",DEFAULT=NO"])))
    ls.append('#EXT-X-MEDIA:TYPE=SUBTITLES,GROUP-ID="s1",NAME="s",URI="s.m3u8"%s' % rng.choice(["", ",FORCED=YES", ",FORCED=NO"]))
    use_cc = rng.random() < 0.6
    if use_cc:
        ls.append('#EXT-X-MEDIA:TYPE=CLOSED-CAPTIONS,GROUP-ID="c1",NAME="c",INSTREAM-ID="%s"' % rng.choice(G.IN_STREAM_IDS))
    for _ in range(rng.randint(1, 4)):
        sd = ["BANDWIDTH=%d" % G.rint(rng)]
        if rng.random() < 0.5: sd.append("AVERAGE-BANDWIDTH=%d" % G.rint(rng))
        if rng.random() < 0.5: sd.append('CODECS="%s"' % rng.choice(["avc1.4d401e", "mp4a.40.2,avc1.4d401e", "a, b", ""]))
        if rng.random() < 0.5: sd.append("RESOLUTION=%dx%d" % (G.rint(rng), G.rint(rng)))
        if rng.random() < 0.5: sd.append("HDCP-LEVEL=%s" % rng.choice(["TYPE-0", "NONE"]))
        if rng.random() < 0.6: sd.append('VIDEO="%s"' % rng.choice(vids))
        if rng.random() < 0.35:
            ls.append('#EXT-X-I-FRAME-STREAM-INF:URI="%s",' % rng.choice(["i.m3u8", "a,b=c"]) + ",".join(sd))
        else:
            if rng.random() < 0.5: sd.append("FRAME-RATE=%s" % rng.choice(["25", "29.97", "23.976", "0.001", "240.999", "0", "59.94", "120.000"]))
            if rng.random() < 0.5: sd.append('AUDIO="%s"' % rng.choice(auds))
            if rng.random() < 0.4: sd.append('SUBTITLES="s1"')
            if use_cc and rng.random() < 0.6: sd.append('CLOSED-CAPTIONS="c1"')
            elif not use_cc and rng.random() < 0.6: sd.append("CLOSED-CAPTIONS=NONE")
            ls.append("#EXT-X-STREAM-INF:" + ",".join(sd)); ls.append(rng.choice(["v.m3u8", "http://h/p?x=1,2", "日本.m3u8"]))
    for i in range(rng.randint(0, 2)):
        ls.append('#EXT-X-SESSION-DATA:DATA-ID="d%d",%s%s' % (i, rng.choice(['VALUE="v,=1"', 'URI="u"']), rng.choice(["", ',LANGUAGE="en"'])))
    for _ in range(rng.randint(0, 2)):
        ls.append("#EXT-X-SESSION-KEY:" + ",".join("%s=%s" % kv for kv in G.gen_key(rng)))
    if rng.random() < 0.4: ls.append("#EXT-X-INDEPENDENT-SEGMENTS")
    if rng.random() < 0.4: ls.append("#EXT-X-START:TIME-OFFSET=%s%s" % (G.f32_literal(rng), rng.choice(["", ",PRECISE=YES", ",PRECISE=NO"])))
    if rng.random() < 0.3: ls.append("#EXT-X-UNKNOWN:1")
    return "\n".join(ls) + "\n"


def c04_build(ctx):
    rng = ctx.rng
    cases = []
    for t in corpus_texts():
        if not ("#EXTINF" in t or "TARGETDURATION" in t):
            cases.append(mk("rt_master", t, group="corpus"))
    for _ in range(ctx.n(3000, 60000)):
        cases.append(mk("rt_master", G.gen_master(rng, features=ctx.features, fr3=True)[0], group="generated"))
    for _ in range(ctx.n(1500, 30000)):
        cases.append(mk("rt_master", c04_rich_master(rng), group="rich-combinations"))
    # tags on their own (R: re-parses the written tag)
    for _ in range(ctx.n(600, 12000)):
        lay = G.Layout(rng)
        sd = G.gen_stream_data(rng, ["v1"])
        cases.append(mk("tag:VariantStream", "#EXT-X-STREAM-INF:" + lay.attrs(sd + ([("FRAME-RATE", "%d.%03d" % (rng.randint(0, 240), rng.randint(0, 999)))] if rng.random() < 0.5 else [])) + "\nuri.m3u8", group="tag"))
        cases.append(mk("tag:VariantStream", "#EXT-X-I-FRAME-STREAM-INF:" + lay.attrs(sd + [("URI", '"u"')]), group="tag"))
        cases.append(mk("tag:ExtXSessionKey", "#EXT-X-SESSION-KEY:" + lay.attrs(G.gen_key(rng)), group="tag"))
    return cases


def c04_oracle(ctx, cases, impl, model):
    fails = []
    for c, a in zip(cases, impl):
        r = C.Resp(a)
        if r.status == "panic":
            fails.append(dict(describe(c.line, a), what="panicked", law="no-panic")); continue
        if r.status != "ok":
            if c.group in ("rich-combinations", "corpus"):
                fails.append(dict(describe(c.line, a), what="a valid master playlist was rejected", law="accept"))
            continue
        k4 = 'KEYFORMATVERSIONS="1"' in c.payload.replace(" ", "")
        rr = r.get("R")
        if rr != "=":
            fails.append(dict(describe(c.line, a), what="parsing the written text gives %s instead of the original value" % ("an error" if rr in ("err", "panic") else "a different value"),
                              law="round-trip", default_versions_dropped=k4, written=C.unhx(r.get("T", ""))[:2000]))
            continue
        if c.op == "rt_master" and r.get("F") != "1":
            fails.append(dict(describe(c.line, a), what="the text written from the re-parsed value differs from the first text", law="fixed-point", written=C.unhx(r.get("T", ""))[:2000]))
    return fails


PROPS["C04"] = {
    "build": c04_build, "gate": {"status", "obs", "A", "R", "F"}, "oracle": c04_oracle,
    "nontrivial": lambda c, a: a.startswith("ok"),
    "rule": "repository master fixtures, generated master playlists (all seven tags, any attribute subset, shuffled layout, frame rates with at most 3 decimals) and dense attribute combinations (I-frame stream with HDCP-LEVEL and VIDEO, renditions with CHANNELS / CHARACTERISTICS / ASSOC-LANGUAGE, CLOSED-CAPTIONS NONE or group, all in-stream ids, session keys of every format, 64-bit bandwidths and resolutions, quoted commas and '='), each through MasterPlaylist::try_from -> to_string -> try_from -> to_string; plus variant-stream and session-key tags on their own; non-trivial = accepted playlist",
    "explanation": "theorems (Props/C04.lean): master_write_parse (for EVERY value the parser can produce, the parser's state machine run on the writer's typed lines gives back exactly that value: the five lists in order, both flags, unknown tags; uses only that the value passed validation), master_roundtrip (text level through to_string / try_from, given each written line's text classifies back to the line: LineRT, via lineItems_renderLines and the line-splitter lemmas), master_fixed_point. LineRT per tag: see Props/C04 status in DESIGN.md (type-level round trips are C18's theorems). Tie: status, observation, A, R and F fields must agree between library and model; oracle on the library: R:= (second observation byte-identical) and F:1 (second text byte-identical).",
    "assumptions": ["frame rates with more than 3 fractional digits are outside the property's domain (the writer emits 3 decimals)"],
}


# ------------------------------------------------------------------------------------------
# C03 — media playlist: serialise -> parse

C03_KEYATTR = ["", ",IV=0x000102030405060708090A0B0C0D0E0F", ',KEYFORMATVERSIONS="1/2"', ',KEYFORMATVERSIONS="1"']


def c03_render(rng, seq):
    """C06 event sequences with richer lines: IV / versions on keys, byte ranges, titles, date ranges"""
    lines = ["#EXTM3U", "#EXT-X-TARGETDURATION:10"]
    if rng.random() < 0.3: lines.append("#EXT-X-MEDIA-SEQUENCE:%d" % rng.choice([1, 7, 2**32]))
    ns = 0
    for ev in seq:
        if ev[0] == "K":
            l = '#EXT-X-KEY:METHOD=%s,URI="%s"' % (rng.choice(["AES-128", "AES-128", "SAMPLE-AES"]), ev[2])
            if C06_FMT[ev[1]] is not None:
                l += ',KEYFORMAT="%s"' % C06_FMT[ev[1]]
            l += rng.choice(C03_KEYATTR) if rng.random() < 0.3 else ""
            lines.append(l)
        elif ev[0] == "N":
            lines.append("#EXT-X-KEY:METHOD=NONE")
        elif ev[0] == "M":
            lines.append('#EXT-X-MAP:URI="init%d"%s' % (ns, rng.choice(["", ',BYTERANGE="10@0"', ',BYTERANGE="10"'])))
        else:
            if rng.random() < 0.2: lines.append("#EXT-X-DISCONTINUITY")
            lines += ["#EXTINF:%s,%s" % (rng.choice(["1", "2.5", "9.999999999", "0.000000001"]), rng.choice(["", "", "t, x"])), "s%d" % ns]
            ns += 1
    return "\n".join(lines) + "\n"


def c03_flags(obs):
    """which recorded round-trip findings the ORIGINAL parse exhibits (computed from the implementation's observation)"""
    m = Media(obs)
    norm = lambda k: re.sub(r"ivN\d+", "ivM", str(k))
    k2 = k3 = False
    prev = None
    for s in m.segments:
        cur = [norm(k) for k in s.keys]
        if s.map is not None and [norm(k) for k in s.map[2].items] != cur:
            k2 = True
        fm = lambda ks: {key_ident(k)[1] for k in ks if k != "K0"}
        if prev is not None and [str(k) for k in s.keys] != ["K0"] and not fm(prev) <= fm(s.keys):
            k3 = True
        prev = s.keys
    k4 = bool(re.search(r";v\[1?\]\}", obs))
    return k2, k3, k4


def obs_text(n):
    """inverse of parse_obs"""
    if isinstance(n, str):
        return n
    if n.kind == "{":
        return n.tag + "{" + ";".join(obs_text(x) for x in n.items) + "}"
    return n.tag + "[" + ",".join(obs_text(x) for x in n.items) + "]"


def c03_fixmaps(obs):
    """the observation theorem C03.media_roundtrip_general predicts for the re-parsed value: every map covered by the keys
    of its own segment (as written: a derived IV is not written)"""
    root = parse_obs(obs)
    for seg in root[10].items:
        if seg[3] != "-":
            seg[3][2].items = [parse_obs(re.sub(r"ivN\d+", "ivM", obs_text(k))) for k in seg[2].items]
    return obs_text(root)


C03_HEADS = {"none": "", "ifo": "#EXT-X-I-FRAMES-ONLY\n", "ind": "#EXT-X-INDEPENDENT-SEGMENTS\n", "vod": "#EXT-X-PLAYLIST-TYPE:VOD\n", "ms": "#EXT-X-MEDIA-SEQUENCE:5\n",
             "ds": "#EXT-X-DISCONTINUITY-SEQUENCE:2\n", "start": "#EXT-X-START:TIME-OFFSET=1.5\n"}
C03_HEADS["all"] = "".join(C03_HEADS.values())
_IV = "0x000000000000000000000000000000"
C03_KINDS = {      # two values of each kind of segment tag (key lines first: a key behind the map is the recorded K2)
    "key": ('#EXT-X-KEY:METHOD=AES-128,URI="k"\n', '#EXT-X-KEY:METHOD=AES-128,URI="l"\n'),
    "key-iv": ('#EXT-X-KEY:METHOD=AES-128,URI="k",IV=%s01\n' % _IV, '#EXT-X-KEY:METHOD=AES-128,URI="k",IV=%s02\n' % _IV),
    "key-format": ('#EXT-X-KEY:METHOD=SAMPLE-AES,URI="k",KEYFORMAT="f"\n', '#EXT-X-KEY:METHOD=SAMPLE-AES,URI="k",KEYFORMAT="g"\n'),
    # keys one attribute apart where the attribute has a default: absent / written explicitly
    "key-identity": ('#EXT-X-KEY:METHOD=AES-128,URI="k"\n', '#EXT-X-KEY:METHOD=AES-128,URI="k",KEYFORMAT="identity"\n'),
    "key-versions": ('#EXT-X-KEY:METHOD=AES-128,URI="k",KEYFORMAT="f"\n', '#EXT-X-KEY:METHOD=AES-128,URI="k",KEYFORMAT="f",KEYFORMATVERSIONS="1/2"\n'),
    "key-versions-zero": ('#EXT-X-KEY:METHOD=AES-128,URI="k",KEYFORMAT="f",KEYFORMATVERSIONS="2"\n', '#EXT-X-KEY:METHOD=AES-128,URI="k",KEYFORMAT="f",KEYFORMATVERSIONS="2/0"\n'),
    "key-versions-order": ('#EXT-X-KEY:METHOD=AES-128,URI="k",KEYFORMAT="f",KEYFORMATVERSIONS="1/2"\n', '#EXT-X-KEY:METHOD=AES-128,URI="k",KEYFORMAT="f",KEYFORMATVERSIONS="2/1"\n'),
    "key-iv0": ('#EXT-X-KEY:METHOD=AES-128,URI="k"\n', '#EXT-X-KEY:METHOD=AES-128,URI="k",IV=%s00\n' % _IV),
    "key-method": ('#EXT-X-KEY:METHOD=AES-128,URI="k"\n', '#EXT-X-KEY:METHOD=SAMPLE-AES,URI="k"\n'),
    "map": ('#EXT-X-MAP:URI="i"\n', '#EXT-X-MAP:URI="j"\n'),
    "map-range": ('#EXT-X-MAP:URI="i",BYTERANGE="5@0"\n', '#EXT-X-MAP:URI="i",BYTERANGE="5@5"\n'),
    "daterange": ('#EXT-X-DATERANGE:ID="a",START-DATE="2010-02-19T14:54:23.031+08:00"\n', '#EXT-X-DATERANGE:ID="b",START-DATE="2010-02-19T14:54:23.031+08:00"\n'),
    "pdt": ("#EXT-X-PROGRAM-DATE-TIME:2010-02-19T14:54:23.031+08:00\n", "#EXT-X-PROGRAM-DATE-TIME:2010-02-19T14:54:24.031+08:00\n"),
    "range": ("#EXT-X-BYTERANGE:10@0\n", "#EXT-X-BYTERANGE:10@10\n"),
    "disc": ("#EXT-X-DISCONTINUITY\n", "#EXT-X-DISCONTINUITY\n"),
    "inf": ("#EXTINF:1,t\n", "#EXTINF:1.5,\n"),
}
_C03_ORDER = list(C03_KINDS)


def c03_consecutive():
    """what the writer carries from one segment to the next: the same tag (same value, other value, with a gap) on consecutive
    segments, for every kind of segment tag, alone and in pairs of kinds, under every playlist-level tag"""
    def text(head, segs):
        out = "#EXTM3U\n#EXT-X-TARGETDURATION:10\n" + head
        for i, tags in enumerate(segs):
            inf = "#EXTINF:1,\n"
            body = ""
            for k in _C03_ORDER:
                if k in tags:
                    if k == "inf":
                        inf = C03_KINDS[k][tags[k]]
                    else:
                        body += C03_KINDS[k][tags[k]]
            out += body + inf + ("v.ts" if any("range" in t for t in segs) else "s%d.ts" % i) + "\n"
        return out + ("#EXT-X-ENDLIST\n" if "VOD" in head else "")
    cases = []
    pats = [(0, 0), (0, 1), (1, 0), (0, None, 0), (None, 0, 0), (0, 0, 0), (0, 1, 0), (1, 0, 1)]
    for hn, head in C03_HEADS.items():
        for k in C03_KINDS:
            for pat in pats:
                if k == "range" and pat in ((0, None, 0),):
                    pass
                segs = [({} if v is None else {k: v}) for v in pat]
                cases.append(mk("rt_media", text(head, segs), group="consecutive", meta={"seq": True}))
    for hn in ("none", "ifo", "ind"):
        for k1, k2 in itertools.combinations(C03_KINDS, 2):
            for (a1, b1), (a2, b2) in (((0, 0), (0, 0)), ((0, 0), (0, 1)), ((0, 1), (0, 0))):
                segs = [{k1: a1, k2: a2}, {k1: b1, k2: b2}]
                cases.append(mk("rt_media", text(C03_HEADS[hn], segs), group="consecutive-pairs", meta={"seq": True}))
    return cases


def c03_build(ctx):
    rng = ctx.rng
    cases = c03_consecutive()
    for t in corpus_texts():
        if "#EXTINF" in t or "TARGETDURATION" in t:
            cases.append(mk("rt_media", t, group="corpus"))
    maxlen = ctx.n(4, 5)
    for n in range(1, maxlen + 1):
        for seq in itertools.product(C06_ALPHA, repeat=n):
            if seq[-1] == ("S",):
                cases.append(mk("rt_media", c06_render(seq), group="key-histories<=%d" % maxlen, meta={"seq": True}))
    for _ in range(ctx.n(2500, 50000)):
        n = rng.randint(2, 40)
        seq = tuple(rng.choice(C06_ALPHA) if rng.random() < 0.6 else ("S",) for _ in range(n)) + (("S",),)
        cases.append(mk("rt_media", c03_render(rng, seq), group="key-histories-long", meta={"seq": True}))
    for _ in range(ctx.n(2500, 50000)):
        cases.append(mk("rt_media", G.gen_media(rng, features=ctx.features)[0], group="generated"))
    for _ in range(ctx.n(800, 16000)):
        cases.append(mk("rt_media", G.gen_media(rng, key_weight=0.6, max_segments=12, features=ctx.features)[0], group="generated-many-keys"))
    for _ in range(ctx.n(500, 10000)):
        lay = G.Layout(rng)
        cases.append(mk("tag:ExtXDateRange", G.gen_daterange(rng, lay), group="tag"))
        cases.append(mk("tag:ExtXKey", "#EXT-X-KEY:" + lay.attrs(G.gen_key(rng)), group="tag"))
        cases.append(mk("tag:ExtInf", "#EXTINF:%s,%s" % (G.dec_seconds(rng, 10**6 - 1), rng.choice(["", "t", "a, b"])), group="tag"))
        cases.append(mk("tag:ExtXMap", '#EXT-X-MAP:URI="%s"%s' % (G.qs(rng), rng.choice(["", ',BYTERANGE="%d@%d"' % (G.rint(rng, 2**40), G.rint(rng, 2**40)), ',BYTERANGE="%d"' % G.rint(rng)])), group="tag"))
    return inf_first(cases, every=2)


def c03_oracle(ctx, cases, impl, model):
    fails = []
    for c, a in zip(cases, impl):
        r = C.Resp(a)
        if r.status == "panic":
            fails.append(dict(describe(c.line, a), what="panicked", law="no-panic")); continue
        if r.status != "ok":
            continue
        rr = r.get("R")
        if c.op != "rt_media":
            if rr != "=":
                k4 = 'KEYFORMATVERSIONS="1"' in c.payload.replace(" ", "")
                fails.append(dict(describe(c.line, a), what="%s: parsing the written tag gives %s" % (c.op, "an error" if rr == "err" else "a different value"), law="round-trip",
                                  default_versions_dropped=k4))
            continue
        if rr == "=" and r.get("F") == "1":
            continue
        k2, k3, k4 = c03_flags(r.obs)
        what = ("parsing the written text gives %s instead of the original content" % ("an error" if rr in ("err", "panic") else "a different value")) if rr != "=" else \
            "the text written from the re-parsed value differs from the first text"
        # finding K2 is exactly: the re-parsed value is the original with every map covered by its segment's keys, and the
        # second text equals the first (theorems media_roundtrip_general / media_fixed_point_general); anything else is new
        if k2:
            try:
                k2 = rr == c03_fixmaps(r.obs) and r.get("F") == "1"
            except Exception:
                k2 = False
        fails.append(dict(describe(c.line, a), what=what, law="round-trip" if rr != "=" else "fixed-point", written=C.unhx(r.get("T", ""))[:3000],
                          key_between_map_and_uri=k2, reset_then_fewer_formats=k3, default_versions_dropped=k4))
    return fails


@classifier("K2-key-between-map-and-uri")
def _k2(f):
    return f.get("key_between_map_and_uri") is True


@classifier("K3-reset-then-fewer-formats")
def _k3(f):
    return f.get("reset_then_fewer_formats") is True


PROPS["C03"] = {
    "build": c03_build, "gate": {"status", "obs", "D", "R", "F"}, "oracle": c03_oracle,
    "nontrivial": lambda c, a: a.startswith("ok") and "#EXT-X-KEY" in c.payload,
    "rule": "repository media fixtures; EVERY key/map/segment event sequence over the 11-letter alphabet of C06 (4 key formats x 2 payloads, METHOD=NONE, EXT-X-MAP, segment) up to the length bound; long random histories with IV / KEYFORMATVERSIONS attributes, byte ranges and titles; generated playlists with all 17 tags; each through try_from -> to_string -> try_from -> to_string; plus DATERANGE / KEY / EXTINF / MAP tags on their own; consecutive-segment families (every kind of segment tag and near-equal key pairs: same value / other value / with a gap on 2-3 consecutive segments, alone and in pairs of kinds, under every playlist-level tag); non-trivial = accepted text with at least one EXT-X-KEY",
    "exhaustive": True,
    "explanation": "see DESIGN.md section 7 (C03) for the theorem status; tie: status, observation, D, R and F must agree between library and model (the model's writer and parser embody the recorded findings exactly, so a new defect shows as a disagreement even where an oracle failure is classified as known); oracle on the library: R:= and F:1",
    "assumptions": ["exhaustive = all event sequences up to the stated length over the stated alphabet (not all texts)"],
}


# ------------------------------------------------------------------------------------------
# C02 / C01 — faithful parsing against an abstract playlist written from the RFC

from . import faithful as FA


def c02_build(ctx):
    rng = ctx.rng
    cases = []
    for t in corpus_texts():
        if not ("#EXTINF" in t or "TARGETDURATION" in t):
            cases.append(mk("master", t, group="corpus"))
    for _ in range(ctx.n(5000, 100000)):
        a = FA.gen_master_ast(rng, ctx.features)
        cases.append(mk("master", FA.render_master(rng, a), group="abstract", meta={"expect": FA.expect_master(a)}))
    # prefix look-alikes of known tags are unknown tags (RFC 8216 6.3.1: ignore what you do not recognise)
    for t in ["#EXT-X-INDEPENDENT-SEGMENTSX", "#EXT-X-INDEPENDENT-SEGMENTS-2:YES", "#EXT-X-STARTX:TIME-OFFSET=1", "#EXT-X-MEDIAX:TYPE=AUDIO", "#EXT-X-SESSION-DATA2:DATA-ID=\"x\""]:
        a = FA.gen_master_ast(rng, ctx.features)
        a["items"].append(("unknown", t)); a["unknown"].append(t)
        cases.append(mk("master", FA.render_master(rng, a, plain=True), group="look-alike-tags", meta={"expect": FA.expect_master(a), "lookalike": t}))
    return cases


def c02_oracle(ctx, cases, impl, model):
    fails = []
    for c, a in zip(cases, impl):
        r = C.Resp(a)
        if r.status == "panic":
            fails.append(dict(describe(c.line, a), what="panicked", law="no-panic")); continue
        exp = c.meta.get("expect")
        if exp is None:
            if r.status != "ok":
                fails.append(dict(describe(c.line, a), what="a repository fixture was rejected", law="accept"))
            continue
        la = c.meta.get("lookalike")
        if r.status != "ok":
            fails.append(dict(describe(c.line, a), what="a valid master playlist was rejected", law="accept", lookalike_tag=la)); continue
        if r.obs != exp:
            i = next((i for i, (x, y) in enumerate(zip(r.obs, exp)) if x != y), min(len(r.obs), len(exp)))
            fails.append(dict(describe(c.line, a), what="the parsed value is not what the text says; first difference at offset %d: text says …%s, reported …%s" % (i, exp[max(0, i - 30):i + 60], r.obs[max(0, i - 30):i + 60]),
                              law="faithful", expected=exp[:4000], lookalike_tag=la))
    return fails


@classifier("K8-tag-prefix-match")
def _k8(f):
    return f.get("lookalike_tag") is not None and f.get("lookalike_tag") in (f.get("payload") or "")


PROPS["C02"] = {
    "build": c02_build, "gate": {"status", "obs", "A"}, "oracle": c02_oracle,
    "nontrivial": lambda c, a: a.startswith("ok") and len(a) > 60,
    "rule": "abstract master playlists (what the text says: ordered items of the 7 master tags with any admissible attribute subset: 64-bit bandwidths and resolutions, all 67 in-stream ids, all enum values, quoted strings with commas / '=' / Unicode, IVs, key formats and version lists, frame rates, start offsets) rendered in varied surface syntax (attribute order, unknown attributes, blanks, comments, blank lines, CRLF, padding); the library's observation must EQUAL the observation computed from the abstract playlist; plus the fixtures and prefix look-alikes of known tags; key formats that only look like a well-known one; a variant stream listed twice; long quoted strings and source literals; non-trivial = accepted non-empty playlist",
    "explanation": "see DESIGN.md section 7 (C02); theorems in Props/C02.lean",
    "assumptions": ["the abstract playlists and their expected observations (bin/lib/faithful.py) are written from RFC 8216, with exact rational arithmetic for binary32 rounding"],
}


def c01_build(ctx):
    rng = ctx.rng
    cases = []
    for t in corpus_texts():
        if "#EXTINF" in t or "TARGETDURATION" in t:
            cases.append(mk("media", t, group="corpus"))
    for _ in range(ctx.n(5000, 100000)):
        a = FA.gen_media_ast(rng, ctx.features)
        # "parsed" is any of the three entry points: TryFrom<&str>, FromStr (parse + into_owned), a default builder's parse()
        x = rng.random()
        op, args = ("media", []) if x < 0.6 else ("media_fromstr", []) if x < 0.85 else ("media_builder", ["-"])
        cases.append(mk(op, FA.render_media(rng, a), *args, group="abstract", meta={"ast": a}))
    for _ in range(ctx.n(300, 6000)):
        a = FA.gen_media_ast(rng, ctx.features, k1=True)
        cases.append(mk("media", FA.render_media(rng, a), group="independent-segments-mixed-methods", meta={"ast": a, "k1": True}))
    for _ in range(ctx.n(300, 6000)):
        a = FA.gen_media_ast(rng, ctx.features, k8=True)
        cases.append(mk("media", FA.render_media(rng, a), group="look-alike-tags", meta={"ast": a, "k8": True}))
    return cases


def c01_long(ctx):
    """playlists with more segments than a 16-bit or an 18-bit counter / cap holds (thorough: more than 2^20): every segment has to
    come back, in order, with its number and URI. Implementation only (the Lean driver is not built for texts of this size); the
    expectation is the text's own construction."""
    fails = []
    sizes = [70000, 300000] if ctx.quick else [70000, 300000, 1100000]
    for n in sizes:
        for kind in ("plain", "keyed"):
            body = "".join(('#EXT-X-KEY:METHOD=AES-128,URI="k%d"\n' % i if kind == "keyed" and i % 1000 == 0 else "") + "#EXTINF:1,\nu%d\n" % i for i in range(n))
            for op in ("media", "media_fromstr"):
                a = C.run_many(C.IMPL, [mk(op, "#EXTM3U\n#EXT-X-TARGETDURATION:10\n#EXT-X-MEDIA-SEQUENCE:7\n" + body + "#EXT-X-ENDLIST\n").line], jobs=1)[0]
                obs = a.split(" ")[1] if a.startswith("ok ") else ""
                got = obs.count("},{") + 1 if obs else 0
                first = obs[obs.index("[{") + 2:].split(";", 1)[0] if "[{" in obs else None
                last = obs[obs.rindex("},{") + 3:].split(";", 1)[0] if "},{" in obs else None
                last_uri = obs.rsplit(";", 1)[-1].rstrip("]}") if obs else None
                ok = a.startswith("ok ") and got == n and first == "7" and last == str(7 + n - 1) and last_uri == "s" + C.hx("u%d" % (n - 1))
                if not ok:
                    fails.append({"op": op, "payload": "#EXTM3U / TARGETDURATION:10 / MEDIA-SEQUENCE:7 / %d x (#EXTINF:1, + u<i>)%s / ENDLIST" % (n, " with a new key every 1000 segments" if kind == "keyed" else ""),
                                  "implementation": a[:300], "what": "a playlist of %d segments came back with %s segments (first number %s, last number %s, last URI %s)" % (n, got, first, last, last_uri),
                                  "law": "faithful", "segments": n})
    ctx.features["long playlists (implementation only)"] = len(sizes) * 4
    return fails


def c01_oracle(ctx, cases, impl, model):
    fails = c01_long(ctx)
    for c, a in zip(cases, impl):
        r = C.Resp(a)
        if r.status == "panic":
            fails.append(dict(describe(c.line, a), what="panicked", law="no-panic")); continue
        ast = c.meta.get("ast")
        if ast is None:
            if r.status != "ok":
                fails.append(dict(describe(c.line, a), what="a repository fixture was rejected", law="accept"))
            continue
        look = [u for u in ast["unknown"] if u in ("#EXT-X-ENDLISTX", "#EXT-X-I-FRAMES-ONLY-NOT", "#EXT-X-INDEPENDENT-SEGMENTS2", "#EXT-X-DISCONTINUITYX", "#EXT-X-DISCONTINUITY-FOO:1")]
        if r.status != "ok":
            mixed = False
            if ast["indep"]:
                ms = {k["method"] if kind == "key" else "NONE" for s in ast["segments"] for kind, k in s["events"]}
                mixed = "AES-128" in ms and len(ms) > 1
            fails.append(dict(describe(c.line, a), what="a valid media playlist was rejected", law="accept", independent_segments_mixed_methods=mixed,
                              lookalike_tag=look[0] if look else None)); continue
        d = FA.compare_media(ast, r.obs)
        if d is not None:
            fails.append(dict(describe(c.line, a), what="the parsed value is not what the text says: " + d, law="faithful", lookalike_tag=look[0] if look else None))
    return fails


@classifier("K1-independent-segments-mixed-methods")
def _k1(f):
    return f.get("independent_segments_mixed_methods") is True


PROPS["C01"] = {
    "build": c01_build, "gate": {"status", "obs", "D"}, "oracle": c01_oracle,
    "nontrivial": lambda c, a: a.startswith("ok") and "#EXTINF" in c.payload,
    "rule": "abstract media playlists (0..8 segments, any combination of the 17 media tags with at most one segment tag of a kind per segment, any attribute subset, quoted strings with commas / '=' / blanks / Unicode, decimal durations with up to 9 fractional digits below 10^6 s, 64-bit integers at the type limits, key events of 7 key formats) rendered in varied surface syntax; every playlist-level value, the segment list and per segment URI, duration in ns, title, discontinuity flag, program date-time, date range with typed client attributes, map and byte range must equal what the abstract playlist says, and the text must be accepted; plus fixtures, INDEPENDENT-SEGMENTS with mixed methods and prefix look-alikes of known tags; every abstract playlist goes through one of the three entry points (TryFrom, FromStr, default builder's parse); segments repeated tag for tag; long quoted strings and strings mined from the source's own literals; non-trivial = accepted playlist with at least one segment",
    "explanation": "see DESIGN.md section 7 (C01); theorems in Props/C01.lean; keys in effect / their order / IV completion / numbering are C06 / C11 / C07",
    "assumptions": ["the abstract playlists and the comparison (bin/lib/faithful.py) are written from RFC 8216, with exact decimal arithmetic for durations and exact rational rounding for binary32"],
}
