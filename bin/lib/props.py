"""Per-property streams, gating projections and oracles (DESIGN.md §7)."""
import itertools, json, os, random, re, time
from . import common as C
from . import gen as G


class Ctx:
    def __init__(self, prop, tier, seed):
        self.prop, self.tier, self.seed = prop, tier, seed
        self.rng = random.Random("%s/%s/%d" % (prop, tier, seed))
        self.quick = tier == "quick"
        self.features = {}

    def n(self, quick, thorough):
        return quick if self.quick else thorough


class Case:
    __slots__ = ("line", "group", "meta")

    def __init__(self, line, group="", meta=None):
        self.line, self.group, self.meta = line, group, meta or {}

    @property
    def op(self):
        return self.line.split("\t", 1)[0]

    @property
    def payload(self):
        return C.unhx(self.line.split("\t")[1])


def mk(op, payload, *args, group="", meta=None):
    return Case(C.req(op, payload, *args), group, meta)


def corpus_texts():
    """the repository's own fixtures (tests/, README examples are in doc tests) + /verif/corpus"""
    out = []
    for root in (os.path.join(C.REPO, "tests"), os.path.join(C.REPO, "src")):
        for d, _, files in os.walk(root):
            for f in sorted(files):
                if f.endswith(".m3u8"):
                    out.append(open(os.path.join(d, f), encoding="utf-8", errors="replace").read())
    # playlists embedded in the rfc8216 / integration tests as string literals
    for d, _, files in os.walk(os.path.join(C.REPO, "tests")):
        for f in sorted(files):
            if f.endswith(".rs"):
                src = open(os.path.join(d, f), encoding="utf-8").read()
                for m in re.finditer(r"concat!\(((?:\s*\"(?:[^\"\\]|\\.)*\",?\s*)+)\)", src):
                    parts = re.findall(r"\"((?:[^\"\\]|\\.)*)\"", m.group(1))
                    s = "".join(parts).encode().decode("unicode_escape", errors="replace")
                    if "#EXTM3U" in s:
                        out.append(s)
    cdir = os.path.join(C.VERIF, "corpus")
    for f in sorted(os.listdir(cdir)) if os.path.isdir(cdir) else []:
        if f.endswith(".m3u8"):
            out.append(open(os.path.join(cdir, f), encoding="utf-8").read())
    return out


def corpus_requests():
    """minimised past disagreements / defect witnesses: run first by every check that shares the op"""
    p = os.path.join(C.VERIF, "corpus", "regressions.jsonl")
    out = []
    if os.path.exists(p):
        for l in open(p):
            l = l.strip()
            if l:
                j = json.loads(l)
                out.append(mk(j["op"], j["payload"], *j.get("args", []), group="corpus", meta={"id": j.get("id", "")}))
    return out


# ------------------------------------------------------------------------------------------
# generic engine

def shrink(case, still_fails, budget=150):
    """delta debugging on the payload: lines, then characters"""
    parts = case.line.split("\t")
    op, args = parts[0], parts[2:]
    text = C.unhx(parts[1])
    calls = [0]

    def test(t):
        calls[0] += 1
        if calls[0] > budget:
            return False
        return still_fails(C.req(op, t, *args))

    for sep in ("\n", ""):
        units = text.split(sep) if sep else list(text)
        n = 2
        while len(units) >= 2 and calls[0] <= budget:
            size = max(1, len(units) // n)
            reduced = False
            for i in range(0, len(units), size):
                cand = units[:i] + units[i + size:]
                if cand and test(sep.join(cand)):
                    units = cand
                    n = max(n - 1, 2)
                    reduced = True
                    break
            if not reduced:
                if size == 1:
                    break
                n = min(len(units), n * 2)
        text = sep.join(units)
    return C.req(op, text, *args)


def run_pair(line):
    return C.run_many(C.IMPL, [line], 1)[0], C.run_many(C.MODEL, [line], 1)[0]


def describe(line, impl=None, model=None):
    parts = line.split("\t")
    d = {"op": parts[0], "payload": C.unhx(parts[1]), "args": parts[2:], "request_line": line}
    if impl is not None:
        d["implementation"] = impl[:4000]
    if model is not None:
        d["model"] = model[:4000]
    return d


def run_streams(ctx, spec):
    t0 = time.time()
    cases = spec["build"](ctx)
    lines = [c.line for c in cases]
    impl, model = C.run_both(lines)
    C.log("ran %d requests on implementation and model (%.1fs)" % (len(lines), time.time() - t0))
    failures = []
    gate = spec["gate"]
    ndis = 0
    for c, a, b in zip(cases, impl, model):
        if b == "unsupported":
            continue
        keys = gate(c) if callable(gate) else gate
        if keys is None:
            continue
        pa, pb = C.project(a, keys), C.project(b, keys)
        if pa != pb:
            ndis += 1
            if ndis <= 3:
                def still(l, keys=keys):
                    x, y = run_pair(l)
                    return y != "unsupported" and C.project(x, keys) != C.project(y, keys)
                small = shrink(c, still)
                x, y = run_pair(small)
                f = describe(small, x, y)
                f.update({"kind": "corr", "group": c.group, "gated_on": sorted(keys),
                          "broken": "correspondence between lean/Hls/Model and /repo on stream '%s'" % c.group,
                          "what": "model and implementation disagree on %s (%s): impl=%s model=%s" % (c.op, c.group, C.project(x, keys)[:120], C.project(y, keys)[:120])})
                failures.append(f)
    if ndis:
        C.log("%d disagreements between model and implementation" % ndis)
    # property oracle on the implementation
    ofail = spec["oracle"](ctx, cases, impl, model)
    nof = 0
    for f in ofail:
        nof += 1
        if nof > 40:
            break
        f["kind"] = "oracle"
        failures.append(f)
    if ofail:
        C.log("%d oracle failures on the implementation" % len(ofail))
    nontrivial = set()
    ok = err = pan = 0
    for c, a in zip(cases, impl):
        st = a.split(" ", 1)[0]
        ok += st == "ok"; err += st == "err"; pan += st == "panic"
        if spec["nontrivial"](c, a):
            nontrivial.add(c.line)
    groups = {}
    for c in cases:
        groups[c.group] = groups.get(c.group, 0) + 1
    samples = []
    seen_g = set()
    for c, a in zip(cases, impl):
        if c.group not in seen_g and len(samples) < 8:
            seen_g.add(c.group)
            samples.append({"group": c.group, "op": c.op, "payload": c.payload[:400], "args": c.line.split("\t")[2:], "implementation": a[:300]})
    cov = {
        "evaluations": len(cases),
        "distinct_nontrivial": len(nontrivial),
        "rule": spec["rule"],
        "samples": samples,
        "streams": groups,
        "implementation_results": {"ok": ok, "err": err, "panic": pan},
        "disagreements": ndis,
        "oracle_failures": len(ofail),
        "features_hit": dict(sorted(ctx.features.items())),
        "exhaustive": bool(spec.get("exhaustive", False)),
        "explanation": spec.get("explanation", ""),
    }
    cov.update(spec.get("extra_coverage", lambda ctx: {})(ctx))
    return {"failures": failures, "coverage": cov}


def run_replay(ctx, spec, path):
    j = json.load(open(path if os.path.isabs(path) else os.path.join(C.VERIF, path)))
    if "request_line" not in j:
        print("replay file has no request (it names a broken proof / tie):", j.get("broken"))
        return {"failures": [dict(j, kind="corr", what="replay of a no-input violation: " + str(j.get("broken")))],
                "coverage": {"evaluations": 0, "distinct_nontrivial": 0, "rule": "replay", "samples": []}}
    c = Case(j["request_line"], j.get("group", "replay"))
    spec2 = dict(spec)
    extra = [Case(l, "replay") for l in j.get("context_lines", [])]
    spec2["build"] = lambda ctx: [c] + extra
    r = run_streams(ctx, spec2)
    for f in r["failures"]:
        print("replayed:", f.get("what"))
    return r


def match_known(prop, failure, known):
    for k in known:
        if k["property"] != prop or not k["status"].startswith("open"):
            continue
        fn = CLASSIFIERS.get(k["classifier"])
        if fn and fn(failure):
            return k
    return None


CLASSIFIERS = {}


def classifier(name):
    def deco(fn):
        CLASSIFIERS[name] = fn
        return fn
    return deco


# ------------------------------------------------------------------------------------------
# C19

NEGZERO = re.compile(r"(?<![0-9a-f])(f|vF)80000000(?![0-9a-f])")


def content(obs):
    """observable content up to the IEEE identification of +0 and -0"""
    return NEGZERO.sub(lambda m: m.group(1) + "00000000", obs)


KFV_SCRIPTS = ["", "1", "2", "0", "1,2", "3,4", "1,3", "2,1", "1,2,3", "1,2,4", "255", "255,255", "0,0", "0,1",
               "1,2,3,p", "1,2,9,p", "1,2,3,t2", "3,4,5,t0", "5,p", "1,2,3,4,5,6,7,8,9", "1,2,3,4,5,6,7,8,8",
               "1,2,3,4,5,6,7,8,9,10", "0,0,x", "0,0,0,x,1", "1,2,x", "1,2,3,x,p", "9,8,7,6,5,4,3,2,1,0,x",
               "1,p,1", "7,7,7,t1", "7", "1,1", "1,1,1", "2,2", "4,3", "3,4,p,5", "1,2,3,4,5,6,7,8", "9,9,9,9,9,9,9,9,9,p"]
F32_BITS = ["00000000", "80000000", "00000001", "80000001", "007fffff", "00800000", "3f800000", "bf800000", "3f800001",
            "3f7fffff", "40000000", "c0000000", "41f00000", "41efc28f", "7f7fffff", "ff7fffff", "7f7ffffe", "3dcccccd",
            "3e4ccccd", "42c80000", "c2c80000", "33800000", "b3800000", "4b800000", "00000002"]
DK_TEXTS = ['METHOD=AES-128,URI="a"', 'METHOD=AES-128,URI="b"', 'METHOD=SAMPLE-AES,URI="a"', 'METHOD=AES-128,URI="a",KEYFORMAT="identity"',
            'METHOD=AES-128,URI="a",KEYFORMAT="f"', 'METHOD=AES-128,URI="a",KEYFORMAT="g"', 'METHOD=AES-128,URI="a",KEYFORMAT="com.apple.streamingkeydelivery"',
            'METHOD=AES-128,URI="a",IV=0x00000000000000000000000000000001', 'METHOD=AES-128,URI="a",IV=0x00000000000000000000000000000002',
            'METHOD=AES-128,URI="a",IV=0xFFFFFFFFFFFFFFFFFFFFFFFFFFFFFFFF', 'METHOD=AES-128,URI="a",KEYFORMATVERSIONS="1"',
            'METHOD=AES-128,URI="a",KEYFORMATVERSIONS="1/2"', 'METHOD=AES-128,URI="a",KEYFORMATVERSIONS="3/4"', 'METHOD=AES-128,URI="a",KEYFORMATVERSIONS="1/2/3"',
            'METHOD=AES-128,URI="é"', 'METHOD=AES-128,URI="z"', 'METHOD=AES-128,URI="ab"', 'URI="a",METHOD=AES-128', 'METHOD=AES-128,URI="a",KEYFORMAT="f",KEYFORMATVERSIONS="2"',
            'METHOD=SAMPLE-AES,URI="a",KEYFORMAT="urn:uuid:edef8ba9-79d6-4ace-a3c8-27dcd51d21ed"', 'METHOD=SAMPLE-AES,URI="a",KEYFORMAT="com.microsoft.playready"']


def c19_build(ctx):
    cases = []
    for a, b in itertools.product(KFV_SCRIPTS, repeat=2):
        cases.append(mk("cmpkfv", a, C.hx(b), group="kfv", meta={"a": a, "b": b}))
    for a, b in itertools.product(F32_BITS, repeat=2):
        cases.append(mk("cmpf32:Float", a, C.hx(b), group="Float", meta={"a": a, "b": b}))
    pos = [x for x in F32_BITS if int(x, 16) < 2**31]
    for a, b in itertools.product(pos, repeat=2):
        cases.append(mk("cmpf32:UFloat", a, C.hx(b), group="UFloat", meta={"a": a, "b": b}))
    for a, b in itertools.product(DK_TEXTS, repeat=2):
        cases.append(mk("cmp:DecryptionKey", a, C.hx(b), group="DecryptionKey", meta={"a": a, "b": b}))
    xk = ["#EXT-X-KEY:METHOD=NONE"] + ["#EXT-X-KEY:" + t for t in DK_TEXTS[:12]]
    for a, b in itertools.product(xk, repeat=2):
        cases.append(mk("cmp:ExtXKey", a, C.hx(b), group="ExtXKey", meta={"a": a, "b": b}))
    kfvt = ['"1"', '"1/2"', '"3/4"', '"1/2/3"', '"2"', '"255"', '"1/1"', '"0"', '"0/0"']
    for a, b in itertools.product(kfvt, repeat=2):
        cases.append(mk("cmp:KeyFormatVersions", a, C.hx(b), group="KeyFormatVersions-text", meta={"a": a, "b": b}))
    # composites (implementation-side oracle; derived impls inherit any incoherence of their fields)
    rng = ctx.rng
    n = ctx.n(9, 22)
    medias = [G.gen_media(rng, max_segments=3, features=ctx.features)[0] for _ in range(n)]
    medias += [medias[0].replace("\n", "\r\n"), medias[1] + "\n# trailing comment\n"]
    for a, b in itertools.product(medias, repeat=2):
        cases.append(mk("cmp:media", a, C.hx(b), group="media", meta={"a": a, "b": b}))
    masters = [G.gen_master(rng, max_tags=3, features=ctx.features)[0] for _ in range(n)]
    masters += [masters[0].replace("\n", "\r\n")]
    for a, b in itertools.product(masters, repeat=2):
        cases.append(mk("cmp:master", a, C.hx(b), group="master", meta={"a": a, "b": b}))
    starts = ["#EXT-X-START:TIME-OFFSET=" + v for v in ["0", "-0", "1.5", "-1.5", "0.0", "1.5,PRECISE=YES", "1.5,PRECISE=NO", "100"]]
    for a, b in itertools.product(starts, repeat=2):
        cases.append(mk("cmp:tag:ExtXStart", a, C.hx(b), group="ExtXStart", meta={"a": a, "b": b}))
    vals = ["1.5", "-0", "0", '"x"', '"y"', "0xAB", "0xab", "0x", '"1.5"', "inf", "2"]
    for a, b in itertools.product(vals, repeat=2):
        cases.append(mk("cmp:type:Value", a, C.hx(b), group="Value", meta={"a": a, "b": b}))
    vs = ['#EXT-X-STREAM-INF:BANDWIDTH=1\nu', '#EXT-X-STREAM-INF:BANDWIDTH=1,FRAME-RATE=0\nu', '#EXT-X-STREAM-INF:BANDWIDTH=1,FRAME-RATE=25\nu',
          '#EXT-X-STREAM-INF:BANDWIDTH=2\nu', '#EXT-X-STREAM-INF:BANDWIDTH=1\nv', '#EXT-X-I-FRAME-STREAM-INF:BANDWIDTH=1,URI="u"',
          '#EXT-X-STREAM-INF:BANDWIDTH=1,CLOSED-CAPTIONS=NONE\nu', '#EXT-X-STREAM-INF:BANDWIDTH=1,CLOSED-CAPTIONS="NONE"\nu', '#EXT-X-STREAM-INF:BANDWIDTH=1,CODECS="a,b"\nu']
    for a, b in itertools.product(vs, repeat=2):
        cases.append(mk("cmp:tag:VariantStream", a, C.hx(b), group="VariantStream", meta={"a": a, "b": b}))
    return cases


def c19_gate(case):
    return {"status", "obs", "extra", "E", "C", "H"}


def c19_oracle(ctx, cases, impl, model):
    """the six laws on the implementation's own answers, per group, over all pairs and triples"""
    fails = []
    by_group = {}
    for c, a in zip(cases, impl):
        by_group.setdefault(c.group, []).append((c, a))
    SW = {"lt": "gt", "gt": "lt", "eq": "eq", "-": "-"}
    for g, items in by_group.items():
        M = {}
        obs = {}
        for c, a in items:
            r = C.Resp(a)
            ka = c.meta.get("a", c.payload)
            kb = c.meta.get("b") if "b" in c.meta else C.unhx(c.line.split("\t")[2])
            if r.status == "panic":
                fails.append(dict(describe(c.line, a), what="comparison panicked in group %s" % g))
                continue
            if r.status != "ok":
                continue
            M[(ka, kb)] = (r.get("E"), r.get("C"), r.get("H"), c, a)
            obs[ka] = r.obs
            if r.extra:
                obs[kb] = r.extra[0]

        def bad(msg, *keys):
            c, a = M[keys[0]][3], M[keys[0]][4]
            d = describe(c.line, a)
            d["context_lines"] = [M[k][3].line for k in keys[1:]]
            d["what"] = "%s: %s" % (g, msg)
            d["law"] = msg.split(":")[0]
            fails.append(d)
        vals = sorted(obs)
        for x in vals:
            if (x, x) in M and M[(x, x)][0] != "1":
                bad("reflexivity: a value is not equal to itself", (x, x))
        for (x, y), (E, Cm, H, _, _) in M.items():
            same = content(obs[x]) == content(obs[y])
            if E == "1" and not same:
                bad("no-false-equality: values with different observable content compare equal", (x, y))
            if E == "0" and same:
                bad("equal-content: values with identical observable content compare unequal", (x, y))
            if Cm != "-" and ((Cm == "eq") != (E == "1")):
                bad("cmp-vs-eq: cmp says %s but == says %s" % (Cm, E), (x, y))
            if H != "-" and E == "1" and H != "1":
                bad("hash: equal values hash differently", (x, y))
            if (y, x) in M:
                E2, C2 = M[(y, x)][0], M[(y, x)][1]
                if E2 != E:
                    bad("symmetry: a==b is %s but b==a is %s" % (E, E2), (x, y), (y, x))
                if Cm != "-" and SW[Cm] != C2:
                    bad("antisymmetry: cmp(a,b)=%s but cmp(b,a)=%s" % (Cm, C2), (x, y), (y, x))
        # transitivity
        n_tr = 0
        for x in vals:
            for y in vals:
                if (x, y) not in M or M[(x, y)][1] not in ("lt", "eq"):
                    continue
                for z in vals:
                    if (y, z) not in M or (x, z) not in M:
                        continue
                    cxy, cyz, cxz = M[(x, y)][1], M[(y, z)][1], M[(x, z)][1]
                    n_tr += 1
                    if cxy == "lt" and cyz in ("lt", "eq") and cxz != "lt":
                        bad("transitivity: a<b, b<=c but cmp(a,c)=%s" % cxz, (x, z), (x, y), (y, z))
                    if cxy == "eq" and cyz == "lt" and cxz != "lt":
                        bad("transitivity: a=b, b<c but cmp(a,c)=%s" % cxz, (x, z), (x, y), (y, z))
                    if M[(x, y)][0] == "1" and M[(y, z)][0] == "1" and M[(x, z)][0] != "1":
                        bad("transitivity: a==b, b==c but a!=c", (x, z), (x, y), (y, z))
        ctx.features["triples:" + g] = n_tr
    # one failure per (group, law) is enough
    seen, out = set(), []
    for f in fails:
        k = (f["what"].split(":")[0], f.get("law"))
        if k not in seen:
            seen.add(k)
            out.append(f)
    return out


def c19_nontrivial(case, a):
    r = C.Resp(a)
    return r.status == "ok" and case.meta.get("a") != case.meta.get("b", 1)


PROPS = {}
PROPS["C19"] = {
    "build": c19_build, "gate": c19_gate, "oracle": c19_oracle, "nontrivial": c19_nontrivial,
    "rule": "all ordered pairs (and all triples, for transitivity) over fixed carriers: KeyFormatVersions built by push/pop/truncate/FromIterator scripts (truncated buffers with stale content, equal length/different content), Float/UFloat bit patterns (±0, subnormals, adjacent values, extremes), decryption keys and EXT-X-KEY texts, client attribute values, EXT-X-START, variant streams, generated media and master playlists; non-trivial = accepted pair of two different carrier elements",
    "exhaustive": False,
    "explanation": "theorems: kfv_laws, f32_laws (hand-written impls), decryptionKey_cmp_eq_iff / extXKey_cmp_eq_iff (derived order the key set relies on) on the model; the model's ==/cmp/hash outcomes are compared with the implementation's on every pair (gate), and the six laws are evaluated on the implementation's own answers for all types including the derived ones",
    "assumptions": ["derived PartialEq/Ord/Hash are structural/lexicographic/field-wise (rustc)", "hash equality is observed through DefaultHasher (SipHash) - collisions of unequal inputs are ignored", "+0 == -0 for Float is IEEE equality by design; content is compared up to that identification"],
}
