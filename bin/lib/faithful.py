"""C01 / C02: abstract playlists (what the text SAYS, written from RFC 8216, not from the parser), their
rendering in varied surface syntax, and the observation the library must report for them."""
from fractions import Fraction
from . import common as C
from . import gen as G

IDENT = {"identity": "kfI", "com.apple.streamingkeydelivery": "kfF", "urn:uuid:edef8ba9-79d6-4ace-a3c8-27dcd51d21ed": "kfW",
         "com.microsoft.playready": "kfP"}


# ----------------------------------------------------------------------------- exact numerics
def dec_to_fraction(lit):
    """decimal literal [+-]digits[.digits][e[+-]digits] -> Fraction"""
    s = lit.strip()
    neg = s.startswith("-")
    s = s.lstrip("+-")
    exp = 0
    if "e" in s or "E" in s:
        s, e = s.replace("E", "e").split("e")
        exp = int(e)
    ip, _, fp = s.partition(".")
    n = int((ip + fp) or "0")
    v = Fraction(n, 10 ** len(fp)) * (Fraction(10) ** exp)
    return -v if neg else v, neg


def f32_bits(lit):
    """IEEE-754 binary32 nearest-even bit pattern of a decimal literal (finite results only)"""
    v, neg = dec_to_fraction(lit)
    sign = 0x80000000 if neg else 0
    v = abs(v)
    if v == 0:
        return sign
    # find e with 2^23 <= v / 2^e < 2^24, clamp to subnormal exponent
    e = v.numerator.bit_length() - v.denominator.bit_length() - 24
    while v / Fraction(2) ** e >= 2 ** 24:
        e += 1
    while v / Fraction(2) ** e < 2 ** 23:
        e -= 1
    e = max(e, -149)
    q = v / Fraction(2) ** e
    m = q.numerator // q.denominator
    r = q - m
    if r > Fraction(1, 2) or (r == Fraction(1, 2) and m % 2 == 1):
        m += 1
    if m == 2 ** 24:
        m, e = 2 ** 23, e + 1
    if e > 104:
        return None
    if m < 2 ** 23:
        return sign | m
    return sign | ((e + 150) << 23) | (m - 2 ** 23)


def secs_to_ns(lit):
    """decimal seconds with at most 9 fractional digits -> nanoseconds (exact)"""
    ip, _, fp = lit.partition(".")
    return int(ip or "0") * 10 ** 9 + int((fp + "0" * 9)[:9] or "0")


# ----------------------------------------------------------------------------- observation atoms
def o_str(s):
    return "s" + C.hx(s)


def o_opt(f, v):
    return "-" if v is None else f(v)


def o_bool(b):
    return "1" if b else "0"


def o_f32(bits):
    return "f%08x" % bits


def o_list(items):
    return "[" + ",".join(items) + "]"


def o_keyformat(f):
    return IDENT.get(f, "kfO" + o_str(f))


def o_iv(iv):
    return "ivM" if iv is None else "ivA%032x" % iv


def o_deckey(k):
    return "{%s;%s;%s;%s;%s}" % ({"AES-128": "aes", "SAMPLE-AES": "saes"}[k["method"]], o_str(k["uri"]), o_iv(k.get("iv")),
                                 o_opt(o_keyformat, k.get("format")), o_opt(lambda v: "v" + o_list([str(x) for x in v]), k.get("versions")))


def o_start(s):
    return "{%s;%s}" % (o_f32(s["bits"]), o_bool(s["precise"]))


def o_streamdata(d):
    return "{%d;%s;%s;%s;%s;%s}" % (d["bandwidth"], o_opt(str, d.get("avg")), o_opt(lambda c: o_list([o_str(x) for x in c]), d.get("codecs")),
                                    o_opt(lambda r: "%dx%d" % r, d.get("resolution")), o_opt(lambda h: {"TYPE-0": "t0", "NONE": "none"}[h], d.get("hdcp")),
                                    o_opt(o_str, d.get("video")))


MT = {"AUDIO": "audio", "VIDEO": "video", "SUBTITLES": "subs", "CLOSED-CAPTIONS": "cc"}


def o_xmedia(m):
    return "{%s;%s;%s;%s;%s;%s;%s;%s;%s;%s;%s;%s}" % (
        MT[m["type"]], o_opt(o_str, m.get("uri")), o_str(m["group"]), o_opt(o_str, m.get("language")), o_opt(o_str, m.get("assoc")),
        o_str(m["name"]), o_bool(m.get("default", False)), o_bool(m.get("autoselect", False)), o_bool(m.get("forced", False)),
        o_opt(lambda x: x[0] + x[1:].lower(), m.get("instream")), o_opt(o_str, m.get("characteristics")),
        o_opt(lambda c: "c%d/%s" % (c[0], o_bool(c[1])), m.get("channels")))


def o_variant(v):
    if v["kind"] == "iframe":
        return "I{%s;%s}" % (o_str(v["uri"]), o_streamdata(v["sd"]))
    cc = v.get("cc")
    return "S{%s;%s;%s;%s;%s;%s}" % (o_str(v["uri"]), o_opt(o_f32, v.get("fr_bits")), o_opt(o_str, v.get("audio")), o_opt(o_str, v.get("subtitles")),
                                     "-" if cc is None else ("ccN" if cc == ("NONE",) else "ccG" + o_str(cc[1])), o_streamdata(v["sd"]))


def o_sessiondata(d):
    return "{%s;%s;%s}" % (o_str(d["id"]), ("V" + o_str(d["value"])) if "value" in d else ("U" + o_str(d["uri"])), o_opt(o_str, d.get("language")))


def expect_master(a):
    return "P{%s;%s;%s;%s;%s;%s;%s}" % (
        o_bool(a["indep"]), o_opt(o_start, a.get("start")), o_list([o_xmedia(m) for m in a["media"]]), o_list([o_variant(v) for v in a["variants"]]),
        o_list([o_sessiondata(d) for d in a["sdata"]]), o_list([o_deckey(k) for k in a["skeys"]]), o_list([o_str(u) for u in a["unknown"]]))


# ----------------------------------------------------------------------------- abstract master playlists
def q(s):
    return '"' + s + '"'


def yn(b):
    return "YES" if b else "NO"


def key_pairs(rng, k):
    p = [("METHOD", k["method"]), ("URI", q(k["uri"]))]
    if k.get("iv") is not None:
        h = "%032x" % k["iv"]
        p.append(("IV", rng.choice(["0x", "0X"]) + "".join(c.upper() if rng.random() < 0.5 else c for c in h)))
    if k.get("format") is not None:
        p.append(("KEYFORMAT", q(k["format"])))
    if k.get("versions") is not None:
        p.append(("KEYFORMATVERSIONS", q("/".join(str(x) for x in k["versions"]))))
    return p


def gen_key_ast(rng):
    k = {"method": rng.choice(["AES-128", "AES-128", "SAMPLE-AES"]), "uri": rng.choice(["k1", "https://keys/1", "skd://x,y=z", "日本"])}
    if rng.random() < 0.4:
        k["iv"] = rng.choice([0, 1, 2 ** 128 - 1, rng.getrandbits(128)])
    f = G.pick_keyformat(rng)
    if f is not None:
        k["format"] = f
    if rng.random() < 0.3:
        k["versions"] = [rng.choice([1, 2, 5, 255, 0, 1]) for _ in range(rng.randint(1, 4))]
    return k


def sd_ast(rng, videos):
    d = {"bandwidth": G.rint(rng)}
    if rng.random() < 0.4: d["avg"] = G.rint(rng)
    if rng.random() < 0.5: d["codecs"] = rng.choice([["avc1.4d401e"], ["mp4a.40.2", "avc1.4d401e"], ["a", " b"], [""], ["x=y", "z"],
                                                          # an empty entry is an entry (the list is the text split at its commas), wherever it stands
                                                          ["", "a"], ["a", ""], ["a", "", "b"], ["", ""], ["", "", "a"], ["", "a", ""]])
    if rng.random() < 0.4: d["resolution"] = (G.rint(rng), G.rint(rng))
    if rng.random() < 0.3: d["hdcp"] = rng.choice(["TYPE-0", "NONE"])
    if videos and rng.random() < 0.5: d["video"] = rng.choice(videos)
    return d


def sd_pairs(d):
    p = [("BANDWIDTH", str(d["bandwidth"]))]
    if "avg" in d: p.append(("AVERAGE-BANDWIDTH", str(d["avg"])))
    if "codecs" in d: p.append(("CODECS", q(",".join(d["codecs"]))))
    if "resolution" in d: p.append(("RESOLUTION", "%dx%d" % d["resolution"]))
    if "hdcp" in d: p.append(("HDCP-LEVEL", d["hdcp"]))
    if "video" in d: p.append(("VIDEO", q(d["video"])))
    return p


def gen_master_ast(rng, feats):
    def hit(n):
        feats[n] = feats.get(n, 0) + 1
    a = {"indep": False, "start": None, "media": [], "variants": [], "sdata": [], "skeys": [], "unknown": []}
    items = []       # ("kind", payload) in source order
    groups = {"AUDIO": [], "VIDEO": [], "SUBTITLES": [], "CLOSED-CAPTIONS": []}
    names = set()
    for _ in range(rng.randint(0, 6)):
        t = rng.choice(list(groups))
        g = rng.choice(["g1", "g2", "aud,1", "日本", "a=b", " lead", "NONE", "YES", "0x1F"])   # incl. ids that look like keywords / numbers
        m = {"type": t, "group": g, "name": G.qs(rng)}
        if (t, g, m["name"]) in names:
            continue
        names.add((t, g, m["name"]))
        groups[t].append(g)
        if t == "SUBTITLES" or (t != "CLOSED-CAPTIONS" and rng.random() < 0.5):
            m["uri"] = rng.choice(G.URIS + ["a,b=c"])
        if rng.random() < 0.4: m["language"] = rng.choice(["en", "de-DE", "x,y"])
        if rng.random() < 0.2: m["assoc"] = "en"
        if rng.random() < 0.3:
            m["default"] = True; m["autoselect"] = True
        elif rng.random() < 0.3:
            m["autoselect"] = True
        if t == "SUBTITLES" and rng.random() < 0.4: m["forced"] = True
        if t == "CLOSED-CAPTIONS": m["instream"] = rng.choice(G.IN_STREAM_IDS)
        if rng.random() < 0.2: m["characteristics"] = "public.accessibility.describes-video,public.easy-to-read"
        if rng.random() < 0.2: m["channels"] = rng.choice([(2, False), (6, False), (16, True), (0, False), (2 ** 64 - 1, False)])
        items.append(("media", m)); hit("MEDIA:" + t)
    cc_mode = rng.choice(["none", "group", "absent"])
    for _ in range(rng.randint(0, 6)):
        if rng.random() < 0.25:
            items.append(("variant", {"kind": "iframe", "uri": rng.choice(G.URIS + ["x,y"]), "sd": sd_ast(rng, groups["VIDEO"])})); hit("I-FRAME-STREAM-INF")
        else:
            v = {"kind": "stream", "uri": rng.choice(G.LINE_URIS), "sd": sd_ast(rng, groups["VIDEO"])}
            if rng.random() < 0.4:
                v["fr_lit"] = "%d.%03d" % (rng.randint(0, 240), rng.randint(0, 999)) if rng.random() < 0.7 else rng.choice(["25", "29.97", "60", "0.5", "120.0", "23.976023976", "1e1"])
                v["fr_bits"] = f32_bits(v["fr_lit"])
            if groups["AUDIO"] and rng.random() < 0.5: v["audio"] = rng.choice(groups["AUDIO"])
            if groups["SUBTITLES"] and rng.random() < 0.4: v["subtitles"] = rng.choice(groups["SUBTITLES"])
            if cc_mode == "none" and rng.random() < 0.6: v["cc"] = ("NONE",)
            elif cc_mode == "group" and groups["CLOSED-CAPTIONS"] and rng.random() < 0.6: v["cc"] = ("G", rng.choice(groups["CLOSED-CAPTIONS"]))
            items.append(("variant", v)); hit("STREAM-INF")
    seen = set()
    for _ in range(rng.randint(0, 3)):
        d = {"id": rng.choice(["com.example.title", "com.example.lyrics", "x,y"])}
        lang = rng.choice([None, "en", "es"])
        if (d["id"], lang) in seen:
            continue
        seen.add((d["id"], lang))
        if lang: d["language"] = lang
        if rng.random() < 0.5: d["value"] = G.qs(rng)
        else: d["uri"] = rng.choice(G.URIS)
        items.append(("sdata", d)); hit("SESSION-DATA")
    for _ in range(rng.randint(0, 2)):
        items.append(("skey", gen_key_ast(rng))); hit("SESSION-KEY")
    if rng.random() < 0.3:
        items.append(("indep", None)); hit("INDEPENDENT-SEGMENTS")
    if rng.random() < 0.3:
        lit = G.f32_literal(rng)
        bits = f32_bits(lit)
        if bits is not None and (bits & 0x7fffffff) < 0x7f800000:
            items.append(("start", {"lit": lit, "bits": bits, "precise": rng.random() < 0.4, "write_no": rng.random() < 0.3})); hit("START")
    if rng.random() < 0.3:
        items.append(("version", rng.randint(1, 7)))
    for _ in range(rng.randint(0, 2)):
        if rng.random() < 0.4:
            items.append(("unknown", rng.choice(["#EXT-X-FOO", "#EXT-X-BAR:1,2", "#EXT-X-CUSTOM:A=\"b,c\"", "#EXTFOO"]))); hit("unknown-tag")
    rng.shuffle(items)
    if rng.random() < 0.25:
        # a variant stream listed twice, attribute for attribute: two entries in the result, in place
        import copy
        vs = [it for it in items if it[0] == "variant"]
        if vs:
            items.insert(rng.randint(0, len(items)), copy.deepcopy(rng.choice(vs))); hit("variant-repeated")
    for kind, x in items:
        if kind == "media": a["media"].append(x)
        elif kind == "variant": a["variants"].append(x)
        elif kind == "sdata": a["sdata"].append(x)
        elif kind == "skey": a["skeys"].append(x)
        elif kind == "indep": a["indep"] = True
        elif kind == "start": a["start"] = x
        elif kind == "unknown": a["unknown"].append(x)
    a["items"] = items
    return a


def render_master(rng, a, plain=False):
    lay = G.Layout(rng, plain)
    lines = ["#EXTM3U"]
    for kind, x in a["items"]:
        if kind == "media":
            p = [("TYPE", x["type"]), ("GROUP-ID", q(x["group"])), ("NAME", q(x["name"]))]
            if "uri" in x: p.append(("URI", q(x["uri"])))
            if "language" in x: p.append(("LANGUAGE", q(x["language"])))
            if "assoc" in x: p.append(("ASSOC-LANGUAGE", q(x["assoc"])))
            if x.get("default"): p.append(("DEFAULT", "YES"))
            elif rng.random() < 0.2: p.append(("DEFAULT", "NO"))
            if x.get("autoselect"): p.append(("AUTOSELECT", "YES"))
            elif rng.random() < 0.2 and not x.get("default"): p.append(("AUTOSELECT", "NO"))
            if x.get("forced"): p.append(("FORCED", "YES"))
            elif x["type"] == "SUBTITLES" and rng.random() < 0.2: p.append(("FORCED", "NO"))
            if "instream" in x: p.append(("INSTREAM-ID", q(x["instream"])))
            if "characteristics" in x: p.append(("CHARACTERISTICS", q(x["characteristics"])))
            if "channels" in x: p.append(("CHANNELS", q("%d%s" % (x["channels"][0], "/JOC" if x["channels"][1] else ""))))
            lines.append("#EXT-X-MEDIA:" + lay.attrs(p))
        elif kind == "variant":
            p = sd_pairs(x["sd"])
            if x["kind"] == "iframe":
                lines.append("#EXT-X-I-FRAME-STREAM-INF:" + lay.attrs([("URI", q(x["uri"]))] + p))
            else:
                if "fr_lit" in x: p.append(("FRAME-RATE", x["fr_lit"]))
                if "audio" in x: p.append(("AUDIO", q(x["audio"])))
                if "subtitles" in x: p.append(("SUBTITLES", q(x["subtitles"])))
                if x.get("cc") == ("NONE",): p.append(("CLOSED-CAPTIONS", "NONE"))
                elif x.get("cc"): p.append(("CLOSED-CAPTIONS", q(x["cc"][1])))
                lines.append("#EXT-X-STREAM-INF:" + lay.attrs(p)); lines.append(x["uri"])
        elif kind == "sdata":
            p = [("DATA-ID", q(x["id"])), ("VALUE", q(x["value"])) if "value" in x else ("URI", q(x["uri"]))]
            if "language" in x: p.append(("LANGUAGE", q(x["language"])))
            lines.append("#EXT-X-SESSION-DATA:" + lay.attrs(p))
        elif kind == "skey":
            lines.append("#EXT-X-SESSION-KEY:" + lay.attrs(key_pairs(rng, x)))
        elif kind == "indep":
            lines.append("#EXT-X-INDEPENDENT-SEGMENTS")
        elif kind == "start":
            p = [("TIME-OFFSET", x["lit"])]
            if x["precise"]: p.append(("PRECISE", "YES"))
            elif x["write_no"]: p.append(("PRECISE", "NO"))
            lines.append("#EXT-X-START:" + lay.attrs(p))
        elif kind == "version":
            lines.append("#EXT-X-VERSION:%d" % x)
        elif kind == "unknown":
            lines.append(x)
    return lay.join(lines)


# ----------------------------------------------------------------------------- abstract media playlists
def o_value(v):
    k, x = v
    if k == "S": return "vS" + C.hx(x)
    if k == "H": return "vH" + x.lower()
    return "vF%08x" % x


def o_daterange(d):
    return "{%s;%s;%s;%s;%s;%s;%s;%s;%s;%s;%s}" % (
        o_str(d["id"]), o_opt(o_str, d.get("class")), o_opt(o_str, d.get("start")), o_opt(o_str, d.get("end")), o_opt(str, d.get("duration")),
        o_opt(str, d.get("planned")), o_opt(o_str, d.get("cmd")), o_opt(o_str, d.get("out")), o_opt(o_str, d.get("in")), o_bool(d.get("eon", False)),
        o_list(["%s=%s" % (o_str(k), o_value(v)) for k, v in sorted(d.get("client", {}).items(), key=lambda kv: kv[0].encode("utf-8"))]))


def gen_daterange_ast(rng):
    d = {"id": G.qs(rng) or "id"}
    eon = rng.random() < 0.2
    if eon or rng.random() < 0.4: d["class"] = G.qs(rng)
    if rng.random() < 0.8: d["start"] = rng.choice(G.DATES)
    if not eon and rng.random() < 0.3: d["end"] = rng.choice(G.DATES)
    if not eon and rng.random() < 0.4:
        d["duration_lit"] = G.dec_seconds(rng, 100000); d["duration"] = secs_to_ns(d["duration_lit"])
    if rng.random() < 0.3:
        d["planned_lit"] = G.dec_seconds(rng, 1000); d["planned"] = secs_to_ns(d["planned_lit"])
    for name, key in (("SCTE35-CMD", "cmd"), ("SCTE35-OUT", "out"), ("SCTE35-IN", "in")):
        if rng.random() < 0.15: d[key] = rng.choice(["0xFC002F0000000000FF2", "0xABCDEF"])
    cl, lits = {}, {}
    for _ in range(rng.randint(0, 3)):
        name = "X-" + rng.choice(["A", "COM-EXAMPLE-AD-ID", "B2", "Z-9", "CUSTOM"])
        r = rng.random()
        if r < 0.4:
            s = G.qs(rng); cl[name] = ("S", s); lits[name] = q(s)
        elif r < 0.7:
            h = "".join(rng.choice("0123456789ABCDEFabcdef") for _ in range(2 * rng.randint(0, 6))); cl[name] = ("H", h); lits[name] = rng.choice(["0x", "0X"]) + h
        else:
            lit = rng.choice([G.f32_literal(rng), "45.3", "-1.25"]); b = f32_bits(lit)
            if b is None or (b & 0x7fffffff) >= 0x7f800000: continue
            cl[name] = ("F", b); lits[name] = lit
    d["client"], d["client_lits"] = cl, lits
    if eon: d["eon"] = True
    return d


def daterange_pairs(d):
    p = [("ID", q(d["id"]))]
    if "class" in d: p.append(("CLASS", q(d["class"])))
    if "start" in d: p.append(("START-DATE", q(d["start"])))
    if "end" in d: p.append(("END-DATE", q(d["end"])))
    if "duration" in d: p.append(("DURATION", d["duration_lit"]))
    if "planned" in d: p.append(("PLANNED-DURATION", d["planned_lit"]))
    for name, key in (("SCTE35-CMD", "cmd"), ("SCTE35-OUT", "out"), ("SCTE35-IN", "in")):
        if key in d: p.append((name, d[key]))
    for k, lit in d["client_lits"].items():
        p.append((k, lit))
    if d.get("eon"): p.append(("END-ON-NEXT", "YES"))
    return p


def gen_media_ast(rng, feats, k1=False, k8=False):
    def hit(n):
        feats[n] = feats.get(n, 0) + 1
    a = {"target": rng.choice([1, 2, 5, 10, 30, 5220, 2 ** 32, 2 ** 64 - 1]), "mseq": 0, "dseq": 0, "ptype": None, "ifo": False, "indep": False,
         "start": None, "end": False, "unknown": [], "segments": [], "hdr": []}
    hdr = [("target", a["target"])]
    if rng.random() < 0.5:
        a["mseq"] = rng.choice([0, 1, 7, 2680, 2 ** 32, 2 ** 63]); hdr.append(("mseq", a["mseq"]))
    if rng.random() < 0.3:
        a["dseq"] = G.rint(rng); hdr.append(("dseq", a["dseq"]))
    if rng.random() < 0.3:
        a["ptype"] = rng.choice(["VOD", "EVENT"]); hdr.append(("ptype", a["ptype"]))
    if rng.random() < 0.2:
        a["ifo"] = True; hdr.append(("ifo", None))
    if rng.random() < 0.25 or k1:
        a["indep"] = True; hdr.append(("indep", None))
    if rng.random() < 0.25:
        lit = G.f32_literal(rng); bits = f32_bits(lit)
        if bits is not None and (bits & 0x7fffffff) < 0x7f800000:
            a["start"] = {"lit": lit, "bits": bits, "precise": rng.random() < 0.4, "write_no": rng.random() < 0.3}; hdr.append(("start", a["start"]))
    if rng.random() < 0.5:
        hdr.append(("version", rng.randint(1, 7)))
    rng.shuffle(hdr)
    # DISCONTINUITY-SEQUENCE has to stay in the header; others may move behind the segments
    a["tail"] = []
    if rng.random() < 0.3:
        mov = [h for h in hdr if h[0] not in ("dseq",)]
        if mov:
            m = rng.choice(mov); hdr.remove(m); a["tail"].append(m)
    a["hdr"] = hdr
    n = rng.randint(0, 8)
    maxd = min(a["target"], 10 ** 6 - 1)
    prev_end, prev_uri = None, None
    methods = ["AES-128"] if (a["indep"] and not k1) else ["AES-128", "AES-128", "SAMPLE-AES"]
    for i in range(n):
        s = {"events": [], "uri": rng.choice(G.LINE_URIS)}
        while rng.random() < 0.3:
            if rng.random() < 0.2 and (not a["indep"] or k1):
                s["events"].append(("keynone", None)); hit("KEY-NONE")
            else:
                k = gen_key_ast(rng); k["method"] = rng.choice(methods)
                s["events"].append(("key", k)); hit("KEY")
        tags = []
        if rng.random() < 0.2:
            m = {"uri": rng.choice(G.URIS + ["i,n=it"])}
            if rng.random() < 0.5:
                m["range"] = (rng.choice([None, rng.randint(0, 1000)]), rng.randint(0, 1000))
            s["map"] = m; tags.append(("map", m)); hit("MAP")
        r = rng.random()
        if r < 0.25:
            ln, off = rng.randint(0, 10 ** 6), (rng.randint(0, 10 ** 6) if rng.random() < 0.8 else rng.choice([0, 2 ** 32, 2 ** 62]))
            s["range"] = (off, off + ln); tags.append(("br", (ln, off))); prev_end, prev_uri = off + ln, s["uri"]; hit("BYTERANGE")
        elif r < 0.4 and prev_uri is not None:
            s["uri"] = prev_uri
            ln = rng.randint(0, 10 ** 6)
            s["range"] = (prev_end, prev_end + ln); tags.append(("br", (ln, None))); prev_end += ln; hit("BYTERANGE-implicit")
        else:
            prev_end, prev_uri = None, None
        if rng.random() < 0.2:
            s["daterange"] = gen_daterange_ast(rng); tags.append(("dr", s["daterange"])); hit("DATERANGE")
        if rng.random() < 0.15:
            s["disc"] = True; tags.append(("disc", None)); hit("DISCONTINUITY")
        if rng.random() < 0.2:
            s["pdt"] = rng.choice(G.DATES); tags.append(("pdt", s["pdt"])); hit("PROGRAM-DATE-TIME")
        s["dur_lit"] = G.dec_seconds(rng, maxd); s["dur"] = secs_to_ns(s["dur_lit"])
        # a title is everything behind the first comma: commas, '=', '#', digits in it are title text, whatever the duration looks like
        s["title"] = None if rng.random() < 0.55 else rng.choice(["title", "a, b", "日本", "x=y", "t\t2", ",", ",,", "a,", ",a", "#x", "1", "1.5", "A=1,B=2", "10,", "NONE",
                                                                       # a title is free text: quotes, apostrophes, backslashes in it are characters of the title
                                                                       '"quoted"', '""', '"', 'a"b', '"a', 'a"', "'a'", '"a","b"', "a\\", '"a b"', '""x""'])
        s["title_pad"] = rng.choice(["", "", " ", "  "])
        tags.append(("inf", None)); hit("EXTINF")
        rng.shuffle(tags)
        if rng.random() < 0.12:
            u = rng.choice(["#EXT-X-FOO", "#EXT-X-CUSTOM:1,2", "#EXT-X-ALLOW-CACHE:YES", "#EXT-X-UNKNOWN-TAG:A=\"b\""] +
                           (["#EXT-X-ENDLISTX", "#EXT-X-I-FRAMES-ONLY-NOT", "#EXT-X-INDEPENDENT-SEGMENTS2", "#EXT-X-DISCONTINUITYX", "#EXT-X-DISCONTINUITY-FOO:1"] if k8 else []))
            tags.insert(rng.randint(0, len(tags)), ("unknown", u)); a["unknown"].append(u); hit("unknown-tag")
        s["tags"] = tags
        a["segments"].append(s)
        if "range" not in s and rng.random() < 0.1 and i + 1 < n:
            # the same segment once more, tag for tag (a live playlist repeating a slate): it is a second segment, not a duplicate to drop
            import copy
            s2 = copy.deepcopy(s); s2["events"] = []
            for kind, x in s2["tags"]:
                if kind == "unknown":
                    a["unknown"].append(x)
            a["segments"].append(s2); hit("segment-repeated")
    if rng.random() < 0.5:
        a["end"] = True; a["tail"].append(("end", None)); hit("ENDLIST")
    if rng.random() < 0.15:
        u = rng.choice(["#EXT-X-FOO", "#EXT-X-BAR:1"]); a["tail"].append(("unknown", u)); a["unknown"].append(u)
    return a


def hdr_line(rng, lay, h):
    k, x = h
    if k == "target": return "#EXT-X-TARGETDURATION:%d" % x
    if k == "mseq": return "#EXT-X-MEDIA-SEQUENCE:%d" % x
    if k == "dseq": return "#EXT-X-DISCONTINUITY-SEQUENCE:%d" % x
    if k == "ptype": return "#EXT-X-PLAYLIST-TYPE:" + x
    if k == "ifo": return "#EXT-X-I-FRAMES-ONLY"
    if k == "indep": return "#EXT-X-INDEPENDENT-SEGMENTS"
    if k == "version": return "#EXT-X-VERSION:%d" % x
    if k == "end": return "#EXT-X-ENDLIST"
    if k == "unknown": return x
    if k == "start":
        p = [("TIME-OFFSET", x["lit"])]
        if x["precise"]: p.append(("PRECISE", "YES"))
        elif x["write_no"]: p.append(("PRECISE", "NO"))
        return "#EXT-X-START:" + lay.attrs(p)
    raise ValueError(k)


def render_media(rng, a, plain=False):
    lay = G.Layout(rng, plain)
    lines = ["#EXTM3U"] + [hdr_line(rng, lay, h) for h in a["hdr"]]
    for s in a["segments"]:
        klines = ["#EXT-X-KEY:METHOD=NONE" if kind == "keynone" else "#EXT-X-KEY:" + lay.attrs(key_pairs(rng, k)) for kind, k in s["events"]]
        # the key lines of a segment may stand anywhere among its tags (also behind the EXTINF line) as long as they stay in
        # front of the segment's EXT-X-MAP (the abstract playlist says: the map is covered by all of them)
        spread = (not plain) and klines and rng.random() < 0.5
        kinds = [kind for kind, _ in s["tags"]]
        limit = kinds.index("map") if "map" in kinds else len(kinds)
        slots = sorted(rng.randint(0, limit) for _ in klines) if spread else [0] * len(klines)
        if not spread:
            lines += klines
        for ti, (kind, x) in enumerate(s["tags"]):
            if spread:
                lines += [kl for kl, sl in zip(klines, slots) if sl == ti]
            if kind == "map":
                p = [("URI", q(x["uri"]))]
                if "range" in x:
                    st, ln = x["range"]
                    p.append(("BYTERANGE", q("%d@%d" % (ln, st) if st is not None else str(ln))))
                lines.append("#EXT-X-MAP:" + lay.attrs(p))
            elif kind == "br":
                ln, off = x
                lines.append("#EXT-X-BYTERANGE:%d%s" % (ln, "" if off is None else "@%d" % off))
            elif kind == "dr":
                lines.append("#EXT-X-DATERANGE:" + lay.attrs(daterange_pairs(x)))
            elif kind == "disc":
                lines.append("#EXT-X-DISCONTINUITY")
            elif kind == "pdt":
                lines.append("#EXT-X-PROGRAM-DATE-TIME:" + x)
            elif kind == "inf":
                lines.append("#EXTINF:%s,%s%s" % (s["dur_lit"], s["title_pad"] if s["title"] else "", s["title"] or ""))
            elif kind == "unknown":
                lines.append(x)
        if spread:
            lines += [kl for kl, sl in zip(klines, slots) if sl >= len(s["tags"])]
        lines.append(s["uri"])
    lines += [hdr_line(rng, lay, h) for h in a["tail"]]
    return lay.join(lines)


def top_split(s, sep):
    out, depth, cur = [], 0, ""
    for ch in s:
        if ch in "{[":
            depth += 1
        elif ch in "}]":
            depth -= 1
        if ch == sep and depth == 0:
            out.append(cur); cur = ""
        else:
            cur += ch
    if cur or out:
        out.append(cur)
    return out


def compare_media(a, obs):
    """first difference between what the text says and what the library reports (None = faithful).
    Keys in effect, their order, IV completion and segment numbers are C06/C11/C07's subject and are not compared here."""
    f = top_split(obs[2:-1], ";")
    exp = [str(a["target"] * 10 ** 9), str(a["mseq"]), str(a["dseq"]), o_opt(lambda x: x, a["ptype"]), o_bool(a["ifo"]), o_bool(a["indep"]),
           o_opt(o_start, a["start"]), o_bool(a["end"]), "0", o_list([o_str(u) for u in a["unknown"]])]
    names = ["target duration", "media sequence", "discontinuity sequence", "playlist type", "I-frames-only", "independent-segments", "start", "end-list",
             "allowable excess", "unknown tags"]
    for n, e, g in zip(names, exp, f):
        if e != g:
            return "%s: text says %s, reported %s" % (n, e, g)
    segs = [x for x in top_split(f[10][1:-1], ",") if x]
    if len(segs) != len(a["segments"]):
        return "the text lists %d segments, %d reported" % (len(a["segments"]), len(segs))
    for i, (s, g) in enumerate(zip(a["segments"], segs)):
        sf = top_split(g[1:-1], ";")
        if sf[3] == "-":
            gm = None
        else:
            mf = top_split(sf[3][1:-1], ";")
            gm = (mf[0], mf[1])
        em = None
        if "map" in s:
            m = s["map"]
            em = (o_str(m["uri"]), "-" if "range" not in m else "r%s:%d" % ("-" if m["range"][0] is None else m["range"][0],
                                                                          m["range"][1] + (m["range"][0] or 0)))
        checks = [("map", em, gm),
                  ("byte range", "-" if "range" not in s else "r%d:%d" % s["range"], sf[4]),
                  ("date range", "-" if "daterange" not in s else o_daterange(s["daterange"]), sf[5]),
                  ("discontinuity", o_bool(s.get("disc", False)), sf[6]),
                  ("program date time", o_opt(o_str, s.get("pdt")), sf[7]),
                  ("duration/title", "{%d;%s}" % (s["dur"], o_opt(o_str, s["title"])), sf[8]),
                  ("uri", o_str(s["uri"]), sf[9])]
        for n, e, gg in checks:
            if e != gg:
                return "segment %d %s: text says %s, reported %s" % (i, n, e, gg)
    return None
