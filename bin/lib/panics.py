"""Static inventory of the places in /repo/src (non-test code) that can unwind: a secondary tie for C05.

The no-panic theorems are about the model, which has a `panic` result exactly where the Rust code had one of these forms when
the model was written. The inventory is compared with the committed `panic_sites.json`; a difference does not by itself say
that a property fails (a harmless rewrite moves an `unwrap`), so it is not an alarm: it is recorded in the evidence and makes
the C05 run search with the thorough-size streams, so that a new panic site is met by many more inputs."""
import json, os, re
from . import common as C

PATTERNS = [
    ("unwrap", re.compile(r"\.unwrap\(\)")),
    ("expect", re.compile(r"\.expect\(")),
    ("panic", re.compile(r"\b(panic|unreachable|unimplemented|todo|assert|assert_eq|assert_ne|debug_assert|debug_assert_eq)!\s*\(")),
    ("index", re.compile(r"[A-Za-z_\)\]]\[[^\]\n]*\]")),                       # slice / index expression
    ("arith", re.compile(r"(?<![=!<>+\-*/&|^%])(\+=|-=|\*=)(?!=)|\b\w+\s(\+|\*)\s\w+")),
    ("cast", re.compile(r"\bas (u8|u16|u32|u64|u128|usize|i32|i64|f32|f64)\b")),
    ("duration", re.compile(r"from_secs_f64|from_secs_f32|Duration::new\(")),
    ("stablevec", re.compile(r"\.insert\(|\.reserve_for\(|\.reserve\(")),
    ("push", re.compile(r"\.push\(")),
    ("float", re.compile(r"parse::<f(32|64)>|\bf(32|64)::|:\s*f(32|64)\b|as_secs_f(32|64)")),
    # std calls with a documented panic on an out-of-range / non-boundary argument
    ("cut", re.compile(r"\.(truncate|split_at|split_at_mut|split_off|drain|remove|swap_remove|insert_str|replace_range|copy_from_slice|"
                       r"clone_from_slice|chunks|chunks_exact|windows|step_by|repeat|rotate_left|rotate_right|get_unchecked|with_capacity)\(|"
                       r"from_utf8_unchecked|from_digit\(|RefCell|\.borrow_mut\(|\.lock\(\)")),
]


def scan():
    inv = {}
    src = os.path.join(C.REPO, "src")
    for root, _, files in os.walk(src):
        for f in sorted(files):
            if not f.endswith(".rs"):
                continue
            p = os.path.join(root, f)
            text = open(p, encoding="utf-8").read()
            cut = text.find("#[cfg(test)]")
            if cut >= 0:
                text = text[:cut]
            sites = []
            for line in text.split("\n"):
                code = line.split("//", 1)[0]
                if not code.strip() or code.strip().startswith("#["):
                    continue
                for kind, rx in PATTERNS:
                    n = len(rx.findall(code))
                    if n:
                        sites.append("%s x%d: %s" % (kind, n, re.sub(r"\s+", " ", code.strip())[:160]))
            if sites:
                inv[os.path.relpath(p, src)] = sorted(sites)
    return inv


def committed():
    p = os.path.join(C.VERIF, "panic_sites.json")
    return json.load(open(p)) if os.path.exists(p) else None


def diff():
    """None if the inventory equals the committed one, else a short description of what appeared / disappeared"""
    now, old = scan(), committed()
    if old is None:
        return {"note": "no committed inventory"}
    if now == old:
        return None
    d = {}
    for f in sorted(set(now) | set(old)):
        a, b = set(now.get(f, [])), set(old.get(f, []))
        if a != b:
            d[f] = {"appeared": sorted(a - b)[:20], "disappeared": sorted(b - a)[:20]}
    return d


if __name__ == "__main__":
    json.dump(scan(), open(os.path.join(C.VERIF, "panic_sites.json"), "w"), indent=1, ensure_ascii=False)
    print("written", sum(len(v) for v in scan().values()), "sites")
