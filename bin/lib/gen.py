"""Generators: structured (mostly valid) media / master playlists with layout variation, tag-level
values, malformed mutants, exhaustive small scopes. Every random choice comes from one
random.Random(seed) so that a case replays from (seed, index)."""
import random

WORDS = ["a", "seg", "main", "audio-1", "vid,eo", "k=v", "a b", "x,y=z", "日本語", "é", "ü,ñ", "😀", "A/B", "p:q", "#h", "1", "0x1F", "NONE", "YES", "id.1"]
URIS = ["a.ts", "b.ts", "http://media.example.com/first.ts", "https://p.example/s/1.ts?x=1&y=2", "seg-1.mp4", "../up/セグ.ts", "fileSequence2680.ts", "u", "main.mp4"]
# a URI LINE is the whole (trimmed) line, whatever it contains, as long as it does not START with '#': quotes, commas, '=', blanks
# inside, a '#' further in, text that would be a tag with a '#' in front
LINE_URIS = URIS + ['"quoted.ts"', "a b.ts", "a,b=c.ts", "seg#frag.ts", "EXTINF:1,", "EXT-X-ENDLIST", 'x"y.ts', "'a'.ts", "a\\b.ts", "%20.ts", "http://h/p?a=1,b=2#f", "日本 語.ts"]
KEYFORMATS = [None, "identity", "com.apple.streamingkeydelivery", "urn:uuid:edef8ba9-79d6-4ace-a3c8-27dcd51d21ed", "com.microsoft.playready", "my.format", "f2"]
# other formats that only look like the well-known ones (RFC 8216: the KEYFORMAT string is compared as written)
KEYFORMATS_LOOKALIKE = ["Identity", "IDENTITY", "com.apple.StreamingKeyDelivery", "URN:UUID:EDEF8BA9-79D6-4ACE-A3C8-27DCD51D21ED", "com.microsoft.PlayReady",
                        "identity2", "com.apple.streamingkeydelivery.v2"]


_LITERALS = None


def source_literals():
    """the string literals of the library's own (non-test) source, as found NOW: a change that gives one particular string a
    special meaning (an alias, a keyword, a sentinel) has to spell that string in the source, so the value pools draw from here"""
    global _LITERALS
    if _LITERALS is None:
        import os, re
        from . import common as C
        from . import translate as T
        lits = set()
        try:
            src_root = os.path.join(C.REPO, "src")
            for root, _, fs in os.walk(src_root):
                for f in sorted(fs):
                    if f.endswith(".rs") and f != "verif_hooks.rs":
                        src = T.strip_comments(T.strip_tests(T.read(os.path.relpath(os.path.join(root, f), src_root))))
                        for m in re.finditer(r'"((?:[^"\\\n]|\\.){1,60})"', src):
                            t = m.group(1)
                            if "\\" in t or "{" in t or "\r" in t:
                                continue
                            lits.add(t)
        except Exception:
            pass
        _LITERALS = sorted(lits) or ["identity"]
    return _LITERALS


_NEW = None


def new_literals():
    """literals of the current source that the committed inventory (source_literals.json) does not have: where the code now
    spells a string it did not spell before. Not an alarm (a reworded message is harmless); it steers the value pools."""
    global _NEW
    if _NEW is None:
        import os, json
        from . import common as C
        try:
            base = set(json.load(open(os.path.join(C.VERIF, "source_literals.json"))))
            _NEW = [t for t in source_literals() if t not in base][:40]
        except Exception:
            _NEW = []
    return _NEW


def literal_like(rng):
    """a source literal, as it stands or in another letter case / with a blank / with one more character"""
    new = new_literals()
    t = rng.choice(new) if new and rng.random() < 0.7 else rng.choice(source_literals())
    r = rng.random()
    if r < 0.6:
        return t
    if r < 0.7:
        return t.lower()
    if r < 0.8:
        return t.upper()
    if r < 0.85:
        return t.title()
    if r < 0.9:
        return t + rng.choice(["x", "1", " ", ".", "-"])
    return rng.choice([" ", "x", "#"]) + t


def pick_keyformat(rng, choices=None):
    if choices is None:
        choices = KEYFORMATS
    if choices is KEYFORMATS:
        r = rng.random()
        if r < 0.15:
            return rng.choice(KEYFORMATS_LOOKALIKE)
        if r < (0.45 if new_literals() else 0.2):
            return literal_like(rng)
    return rng.choice(choices)
BOUNDARY_INTS = [0, 1, 2, 255, 256, 2**32 - 1, 2**32, 2**53, 2**63 - 1, 2**63, 2**64 - 2, 2**64 - 1]
DATES = ["2010-02-19T14:54:23.031+08:00", "2014-03-05T11:15:00Z", "1970-01-01T00:00:00.000Z", "not a date"]


def qs(rng):
    """a string that is legal inside quotes (no quote, CR, LF)"""
    r = rng.random()
    if r < 0.6:
        return rng.choice(WORDS)
    if r < 0.8:
        return rng.choice(WORDS) + rng.choice([" ", ",", "=", "-", ""]) + rng.choice(WORDS)
    if r < 0.85:
        return ""
    if r < 0.9 or (r < 0.95 and new_literals()):
        return literal_like(rng)
    if r < 0.92:
        # long (a value cut, capped or copied into a fixed buffer shows here), with leading / trailing blanks kept inside the quotes
        return rng.choice(["", " "]) + "".join(rng.choice("abcXYZ019 ,=-_/:.éß日😀") for _ in range(rng.choice([64, 130, 260, 600]))) + rng.choice(["", " "])
    if r < 0.99:
        # any printable ASCII character but the quote is an ordinary character of a quoted string (RFC 8216 4.2: no escapes) - in
        # particular the ones that are special in OTHER syntaxes (backslash, apostrophe, percent, braces), also as the last or
        # the first character
        body = "".join(rng.choice(QS_ASCII) for _ in range(rng.randint(0, 6)))
        edge = rng.choice("\\'%#&;:@{}[]()<>?!*+^`|~$,= ")
        return rng.choice([body + edge, edge + body, edge, body + edge * 2, body + edge + body])
    return "".join(rng.choice("abcXYZ019 ,=-_/:.éß日😀") for _ in range(rng.randint(1, 12)))


QS_ASCII = "".join(chr(c) for c in range(0x20, 0x7f) if chr(c) != '"')


def rint(rng, hi=2**64 - 1):
    r = rng.random()
    if r < 0.5:
        return rng.randint(0, 100)
    if r < 0.8:
        v = rng.choice(BOUNDARY_INTS)
        return v if v <= hi else hi
    return rng.randint(0, hi)


def dec_seconds(rng, max_secs):
    """decimal literal < max_secs+0.5 (so it rounds to ≤ max_secs), ≤ 9 fractional digits"""
    if max_secs <= 0:
        return rng.choice(["0", "0.0", "0.4", "0.499999999"])
    r = rng.random()
    if r < 0.3:
        v = rng.randint(0, max_secs)
        return rng.choice(["%d", "%d", "%d", "0%d", "00%d", "%d.", "%d.0", "%d.000000000"]) % v          # integer spellings
    if r < 0.4:
        return "%d.%s" % (max_secs, rng.choice(["0", "4", "499999999", "25", "000000001"]))
    s = rng.randint(0, max_secs - 1) if max_secs > 0 else 0
    nd = rng.randint(1, 9)
    frac = "".join(rng.choice("0123456789") for _ in range(nd))
    return "%d.%s" % (s, frac)


def f32_literal(rng, signed=True):
    r = rng.random()
    if r < 0.4:
        v = rng.choice(["0", "1", "25", "29.97", "59.94", "23.976", "60", "0.5", "10.5", "120", "24.000", "1e2", "1.5e1", "0.0625", "0.1875", "100.125", ".5", "5."])
    elif r < 0.7:
        v = "%d.%03d" % (rng.randint(0, 300), rng.randint(0, 999))
    elif r < 0.85:
        v = "%d.%s" % (rng.randint(0, 10**6), "".join(rng.choice("0123456789") for _ in range(rng.randint(1, 9))))
    else:
        v = "%de%d" % (rng.randint(1, 999), rng.randint(-45, 30))
    if signed and rng.random() < 0.3:
        v = "-" + v
    return v


ALL_ATTR_NAMES = ["METHOD", "URI", "IV", "KEYFORMAT", "KEYFORMATVERSIONS", "BYTERANGE", "ID", "CLASS", "START-DATE", "END-DATE", "DURATION", "PLANNED-DURATION",
                  "SCTE35-CMD", "SCTE35-OUT", "SCTE35-IN", "END-ON-NEXT", "TYPE", "GROUP-ID", "LANGUAGE", "ASSOC-LANGUAGE", "NAME", "DEFAULT", "AUTOSELECT", "FORCED",
                  "INSTREAM-ID", "CHARACTERISTICS", "CHANNELS", "BANDWIDTH", "AVERAGE-BANDWIDTH", "CODECS", "RESOLUTION", "FRAME-RATE", "HDCP-LEVEL", "AUDIO", "VIDEO",
                  "SUBTITLES", "CLOSED-CAPTIONS", "DATA-ID", "VALUE", "TIME-OFFSET", "PRECISE"]


def unknown_attr(rng, pairs, client_prefix_ok=True):
    """an attribute the tag does not know: an unrelated name, or a NEAR MISS of a known one (a prefix / suffix added, another letter
    case), with an unrelated value or a value that means something for the known one (copied from the list, a keyword)"""
    known = [k for k, _ in pairs if k in ALL_ATTR_NAMES] or ["URI"]
    r = rng.random()
    if r < 0.35:
        name = rng.choice(["FOO", "Y-NOT-CLIENT", "UNKNOWN-ATTR", "Z9", "BANDWIDTHX", "URI2"])
    else:
        base = rng.choice(known) if rng.random() < 0.7 else rng.choice(ALL_ATTR_NAMES)
        forms = [base + "X", base + "-2", "MY-" + base, "Y" + base, base.lower(), base.title(), base + "S", base[:-1] if len(base) > 2 else base + "Q"]
        if client_prefix_ok:
            forms += ["X-" + base, "X" + base]
        name = rng.choice(forms)
        while name in ALL_ATTR_NAMES:          # never a name some tag knows: that would be another value, not noise
            name += "Q"
        if not client_prefix_ok and name.upper().startswith("X-"):
            name = "Y" + name          # in a DATERANGE every X-… name is a client attribute, not an unknown one
    r = rng.random()
    if r < 0.4:
        value = rng.choice(["1", '"a,b"', "YES", '"q=r"', "0x1", "NONE", '"METHOD=NONE"'])
    elif r < 0.7 and pairs:
        value = rng.choice(pairs)[1]
    else:
        value = rng.choice(["NONE", "NO", "YES", "AES-128", "SAMPLE-AES", "AUDIO", "CLOSED-CAPTIONS", "TYPE-0", '"identity"', '""', "0", "-1", "1x1", "0x"])
    return name, value


class Layout:
    """surface-syntax decisions for one rendering"""
    def __init__(self, rng, plain=False):
        self.rng = rng
        self.plain = plain
        self.crlf = (not plain) and rng.random() < 0.2
        self.shuffle_attrs = (not plain) and rng.random() < 0.5
        self.unknown_attrs = (not plain) and rng.random() < 0.3
        self.blanks = (not plain) and rng.random() < 0.3
        self.comments = (not plain) and rng.random() < 0.3
        self.blank_lines = (not plain) and rng.random() < 0.3
        self.line_pad = (not plain) and rng.random() < 0.2

    def attrs(self, pairs):
        """pairs: list of (key, rendered value). Returns the attribute-list text."""
        rng = self.rng
        pairs = list(pairs)
        if self.unknown_attrs and rng.random() < 0.5:
            pairs.insert(rng.randint(0, len(pairs)), unknown_attr(rng, pairs, client_prefix_ok=not any(k in ("START-DATE", "END-ON-NEXT", "PLANNED-DURATION", "CLASS", "ID") for k, _ in pairs)))
        if self.shuffle_attrs:
            rng.shuffle(pairs)
        out = []
        for k, v in pairs:
            if self.blanks and rng.random() < 0.5:
                out.append("%s%s=%s%s" % (rng.choice(["", " "]), k, rng.choice(["", " "]), v + rng.choice(["", " "])))
            else:
                out.append("%s=%s" % (k, v))
        return ",".join(out)

    def join(self, lines):
        rng = self.rng
        out = []
        skip_after_streaminf = False
        for li, ln in enumerate(lines):
            if li == 0:
                pass        # "#EXTM3U" must be the first line of the file
            elif not skip_after_streaminf:
                if self.comments and rng.random() < 0.2:
                    out.append(rng.choice(["# comment", "#", "## x", "#ext-lower"]))
                if self.blank_lines and rng.random() < 0.2:
                    out.append(rng.choice(["", "   ", "\t"]))
            elif self.blank_lines and rng.random() < 0.2:
                out.append("")
            skip_after_streaminf = ln.startswith("#EXT-X-STREAM-INF:")
            if self.line_pad and rng.random() < 0.5:
                ln = rng.choice(["", " ", "\t", "  "]) + ln + rng.choice(["", " ", "\t"])
            out.append(ln)
        nl = "\r\n" if self.crlf else "\n"
        text = nl.join(out)
        if rng.random() < 0.8:
            text += nl
        return text


def q(s):
    return '"' + s + '"'


def gen_key(rng, fmt_choices=KEYFORMATS):
    """returns attribute pairs for a non-NONE key"""
    pairs = [("METHOD", rng.choice(["AES-128", "AES-128", "SAMPLE-AES"])), ("URI", q(rng.choice(["k1", "k2", "https://keys/1", "skd://x,y"]) ))]
    if rng.random() < 0.4:
        pairs.append(("IV", rng.choice(["0x", "0X"]) + "".join(rng.choice("0123456789abcdefABCDEF") for _ in range(32))))
    f = pick_keyformat(rng, fmt_choices)
    if f is not None:
        pairs.append(("KEYFORMAT", q(f)))
    if rng.random() < 0.3:
        pairs.append(("KEYFORMATVERSIONS", q("/".join(str(rng.choice([1, 2, 5, 255, 0, 1])) for _ in range(rng.randint(1, 4))))))
    return pairs


def gen_daterange(rng, lay):
    pairs = [("ID", q(qs(rng) or "id"))]
    eon = rng.random() < 0.2
    if eon or rng.random() < 0.4:
        pairs.append(("CLASS", q(qs(rng))))
    if rng.random() < 0.8:
        pairs.append(("START-DATE", q(rng.choice(DATES))))
    if not eon and rng.random() < 0.3:
        pairs.append(("END-DATE", q(rng.choice(DATES))))
    if not eon and rng.random() < 0.4:
        pairs.append(("DURATION", dec_seconds(rng, 100000)))
    if rng.random() < 0.3:
        pairs.append(("PLANNED-DURATION", dec_seconds(rng, 1000)))
    for name in ("SCTE35-CMD", "SCTE35-OUT", "SCTE35-IN"):
        if rng.random() < 0.15:
            pairs.append((name, rng.choice(["0xFC002F0000000000FF2", "0xABCDEF", q("x")])))
    seen = set()
    for _ in range(rng.randint(0, 3)):
        name = "X-" + rng.choice(["A", "COM-EXAMPLE-AD-ID", "B2", "Z-9", "CUSTOM"])
        if name in seen:
            continue
        seen.add(name)
        pairs.append((name, rng.choice([q(qs(rng)), "0x" + "".join(rng.choice("0123456789ABCDEFabcdef") for _ in range(2 * rng.randint(0, 6))), f32_literal(rng), "45.3", "-1.25"])))
    if eon:
        pairs.append(("END-ON-NEXT", "YES"))
    return "#EXT-X-DATERANGE:" + lay.attrs(pairs)


def gen_media(rng, max_segments=8, plain=False, key_weight=0.35, allow_k1=False, features=None):
    """a (mostly) valid media playlist text"""
    lay = Layout(rng, plain)
    feats = features if features is not None else {}

    def hit(name):
        feats[name] = feats.get(name, 0) + 1

    target = rng.choice([0, 1, 2, 5, 10, 10, 10, 30, 5220, 2**32, 2**64 - 1]) if rng.random() < 0.9 else rint(rng)
    header = ["#EXT-X-TARGETDURATION:%d" % target]
    mseq = None
    if rng.random() < 0.5:
        mseq = rng.choice([0, 1, 7, 2680, 2**32, 2**63]) if rng.random() < 0.8 else rint(rng, 2**64 - 1 - max_segments)
        header.append("#EXT-X-MEDIA-SEQUENCE:%d" % mseq); hit("MEDIA-SEQUENCE")
    if rng.random() < 0.3:
        header.append("#EXT-X-DISCONTINUITY-SEQUENCE:%d" % rint(rng)); hit("DISCONTINUITY-SEQUENCE")
    if rng.random() < 0.3:
        header.append("#EXT-X-PLAYLIST-TYPE:" + rng.choice(["VOD", "EVENT"])); hit("PLAYLIST-TYPE")
    if rng.random() < 0.2:
        header.append("#EXT-X-I-FRAMES-ONLY"); hit("I-FRAMES-ONLY")
    indep = rng.random() < 0.25
    if indep:
        header.append("#EXT-X-INDEPENDENT-SEGMENTS"); hit("INDEPENDENT-SEGMENTS")
    if rng.random() < 0.25:
        p = [("TIME-OFFSET", f32_literal(rng))]
        if rng.random() < 0.5:
            p.append(("PRECISE", rng.choice(["YES", "NO"])))
        header.append("#EXT-X-START:" + lay.attrs(p)); hit("START")
    if rng.random() < 0.5:
        header.append("#EXT-X-VERSION:%d" % rng.randint(1, 7)); hit("VERSION")
    rng.shuffle(header)
    tail = []
    # some playlist-level tags may legally appear anywhere: move a few to the end
    if not plain and rng.random() < 0.3:
        movable = [h for h in header if not h.startswith("#EXT-X-DISCONTINUITY-SEQUENCE")]
        if movable:
            m = rng.choice(movable)
            header.remove(m)
            tail.append(m)
    body = []
    n = rng.randint(0, max_segments)
    only_aes = rng.random() < 0.5
    prev_ranged_uri = None
    nkeys = 0
    for i in range(n):
        seg = []
        # key events
        while rng.random() < key_weight:
            if rng.random() < 0.2 and not (indep and not allow_k1):
                seg.append("#EXT-X-KEY:METHOD=NONE"); hit("KEY-NONE")
            else:
                kp = gen_key(rng)
                if indep and not allow_k1 or only_aes:
                    kp[0] = ("METHOD", "AES-128")
                seg.append("#EXT-X-KEY:" + lay.attrs(kp)); hit("KEY"); nkeys += 1
        tags = []
        if rng.random() < 0.2:
            mp = [("URI", q(rng.choice(URIS)))]
            if rng.random() < 0.5:
                mp.append(("BYTERANGE", q("%d@%d" % (rng.randint(0, 1000), rng.randint(0, 1000)) if rng.random() < 0.8 else str(rng.randint(0, 99)))))
            tags.append("#EXT-X-MAP:" + lay.attrs(mp)); hit("MAP")
        uri = rng.choice(LINE_URIS)
        r = rng.random()
        if r < 0.25:
            off = rng.randint(0, 10**6) if rng.random() < 0.8 else rng.choice([0, 2**32, 2**62])
            tags.append("#EXT-X-BYTERANGE:%d@%d" % (rng.randint(0, 10**6), off)); hit("BYTERANGE")
            prev_ranged_uri = uri
        elif r < 0.4 and prev_ranged_uri is not None:
            uri = prev_ranged_uri
            tags.append("#EXT-X-BYTERANGE:%d" % rng.randint(0, 10**6)); hit("BYTERANGE-implicit")
        else:
            prev_ranged_uri = None
        if rng.random() < 0.15:
            tags.append(gen_daterange(rng, lay)); hit("DATERANGE")
        if rng.random() < 0.15:
            tags.append("#EXT-X-DISCONTINUITY"); hit("DISCONTINUITY")
        if rng.random() < 0.2:
            tags.append("#EXT-X-PROGRAM-DATE-TIME:" + rng.choice(DATES)); hit("PROGRAM-DATE-TIME")
        title = "" if rng.random() < 0.6 else rng.choice(["title", "a, b", " padded ", "日本", "x=y", '"quoted"', '""', 'a"b', '"a', "'a'", "a\\"])
        tags.append("#EXTINF:%s,%s" % (dec_seconds(rng, min(target, 10**6 - 1)), title)); hit("EXTINF")
        if not plain:
            rng.shuffle(tags)
        if rng.random() < 0.1 and not plain:
            tags.insert(rng.randint(0, len(tags)), "#EXT-X-" + rng.choice(["FOO", "CUSTOM:1,2", "ALLOW-CACHE:YES", "UNKNOWN-TAG:A=\"b\""])); hit("unknown-tag")
        if not plain and seg and rng.random() < 0.5:
            # RFC 8216 fixes no order among a segment's tags: the key lines may stand anywhere in front of the URI line (also
            # behind the EXTINF line), in their own order
            at = 0
            for kl in seg:
                at = rng.randint(at, len(tags))
                tags.insert(at, kl)
                at += 1
            seg = []
        seg += tags
        seg.append(uri)
        body += seg
    end = []
    if rng.random() < 0.5:
        end.append("#EXT-X-ENDLIST"); hit("ENDLIST")
    if rng.random() < 0.15:
        end.append("#EXT-X-" + rng.choice(["FOO", "BAR:1"])); hit("unknown-tag")
    lines = ["#EXTM3U"] + header + body + tail + end
    feats["segments"] = feats.get("segments", 0) + n
    return lay.join(lines), {"segments": n, "keys": nkeys, "target": target}


def gen_stream_data(rng, video_groups):
    p = [("BANDWIDTH", str(rint(rng)))]
    if rng.random() < 0.4:
        p.append(("AVERAGE-BANDWIDTH", str(rint(rng))))
    if rng.random() < 0.5:
        p.append(("CODECS", q(",".join(rng.choice(["avc1.4d401e", "mp4a.40.2", "hvc1.1.6.L93", "x y", "", ""]) for _ in range(rng.randint(1, 4))))))
    if rng.random() < 0.4:
        p.append(("RESOLUTION", "%dx%d" % (rint(rng), rint(rng))))
    if rng.random() < 0.3:
        p.append(("HDCP-LEVEL", rng.choice(["TYPE-0", "NONE"])))
    if video_groups and rng.random() < 0.4:
        p.append(("VIDEO", q(rng.choice(video_groups))))
    return p


IN_STREAM_IDS = ["CC1", "CC2", "CC3", "CC4"] + ["SERVICE%d" % i for i in range(1, 64)]


def gen_master(rng, max_tags=6, plain=False, features=None, consistent=True, fr3=False):
    lay = Layout(rng, plain)
    feats = features if features is not None else {}

    def hit(name):
        feats[name] = feats.get(name, 0) + 1
    groups = {"AUDIO": [], "VIDEO": [], "SUBTITLES": [], "CLOSED-CAPTIONS": []}
    lines = []
    for _ in range(rng.randint(0, max_tags)):
        t = rng.choice(list(groups))
        g = rng.choice(["g1", "g2", "aud,1", "日本", "NONE"])
        groups[t].append(g)
        p = [("TYPE", t), ("GROUP-ID", q(g)), ("NAME", q(qs(rng)))]
        if t == "SUBTITLES" or (t != "CLOSED-CAPTIONS" and rng.random() < 0.5):
            p.append(("URI", q(rng.choice(URIS))))
        if rng.random() < 0.4:
            p.append(("LANGUAGE", q(rng.choice(["en", "de-DE", "ja"]))))
        if rng.random() < 0.2:
            p.append(("ASSOC-LANGUAGE", q("en")))
        d = rng.random() < 0.3
        if d:
            p.append(("DEFAULT", "YES"))
        elif rng.random() < 0.2:
            p.append(("DEFAULT", "NO"))
        if d or rng.random() < 0.3:
            p.append(("AUTOSELECT", "YES"))
        elif rng.random() < 0.2:
            p.append(("AUTOSELECT", "NO"))
        if t == "SUBTITLES" and rng.random() < 0.4:
            p.append(("FORCED", rng.choice(["YES", "NO"])))
        if t == "CLOSED-CAPTIONS":
            p.append(("INSTREAM-ID", q(rng.choice(IN_STREAM_IDS))))
        if rng.random() < 0.2:
            p.append(("CHARACTERISTICS", q("public.accessibility.describes-video,public.easy-to-read")))
        if rng.random() < 0.2:
            p.append(("CHANNELS", q(rng.choice(["2", "6", "16/JOC", "0"]))))
        lines.append("#EXT-X-MEDIA:" + lay.attrs(p)); hit("MEDIA:" + t)
    cc_mode = rng.choice(["none", "group", "absent"])
    for _ in range(rng.randint(0, max_tags)):
        if rng.random() < 0.25:
            p = [("URI", q(rng.choice(URIS)))] + gen_stream_data(rng, groups["VIDEO"] if consistent else groups["VIDEO"] + ["zz"])
            lines.append("#EXT-X-I-FRAME-STREAM-INF:" + lay.attrs(p)); hit("I-FRAME-STREAM-INF")
        else:
            p = gen_stream_data(rng, groups["VIDEO"] if consistent else groups["VIDEO"] + ["zz"])
            if rng.random() < 0.4:
                p.append(("FRAME-RATE", ("%d.%03d" % (rng.randint(0, 240), rng.randint(0, 999)) if rng.random() < 0.7 else rng.choice(["25", "29.97", "60", "23.976", "0.5", "120.0"])) if fr3 else f32_literal(rng, signed=False)))
            pool = (lambda t: groups[t] if consistent else groups[t] + ["zz"])
            if pool("AUDIO") and rng.random() < 0.5:
                p.append(("AUDIO", q(rng.choice(pool("AUDIO")))))
            if pool("SUBTITLES") and rng.random() < 0.4:
                p.append(("SUBTITLES", q(rng.choice(pool("SUBTITLES")))))
            mode = cc_mode if consistent else rng.choice(["none", "group", "absent"])
            if mode == "none" and rng.random() < 0.6:
                p.append(("CLOSED-CAPTIONS", "NONE"))
            elif mode == "group" and pool("CLOSED-CAPTIONS") and rng.random() < 0.6:
                p.append(("CLOSED-CAPTIONS", q(rng.choice(pool("CLOSED-CAPTIONS")))))
            lines.append("#EXT-X-STREAM-INF:" + lay.attrs(p))
            lines.append(rng.choice(LINE_URIS)); hit("STREAM-INF")
    seen = set()
    for _ in range(rng.randint(0, 3)):
        did, lang = rng.choice(["com.example.title", "com.example.lyrics", "x"]), rng.choice([None, "en", "es"])
        if consistent and (did, lang) in seen:
            continue
        seen.add((did, lang))
        p = [("DATA-ID", q(did)), rng.choice([("VALUE", q(qs(rng))), ("URI", q(rng.choice(URIS)))])]
        if lang:
            p.append(("LANGUAGE", q(lang)))
        lines.append("#EXT-X-SESSION-DATA:" + lay.attrs(p)); hit("SESSION-DATA")
    for _ in range(rng.randint(0, 2)):
        lines.append("#EXT-X-SESSION-KEY:" + lay.attrs(gen_key(rng))); hit("SESSION-KEY")
    if rng.random() < 0.3:
        lines.append("#EXT-X-INDEPENDENT-SEGMENTS"); hit("INDEPENDENT-SEGMENTS")
    if rng.random() < 0.3:
        p = [("TIME-OFFSET", f32_literal(rng))]
        if rng.random() < 0.5:
            p.append(("PRECISE", rng.choice(["YES", "NO"])))
        lines.append("#EXT-X-START:" + lay.attrs(p)); hit("START")
    if rng.random() < 0.3:
        lines.append("#EXT-X-VERSION:%d" % rng.randint(1, 7)); hit("VERSION")
    if rng.random() < 0.2:
        lines.append("#EXT-X-" + rng.choice(["FOO", "BAR:1,2"])); hit("unknown-tag")
    # shuffle whole items (a STREAM-INF line stays glued to its URI line)
    items, i = [], 0
    while i < len(lines):
        if lines[i].startswith("#EXT-X-STREAM-INF:"):
            items.append(lines[i:i + 2]); i += 2
        else:
            items.append(lines[i:i + 1]); i += 1
    if not plain:
        rng.shuffle(items)
    return lay.join(["#EXTM3U"] + [l for it in items for l in it]), {}


# ----------------------------------------------------------------- malformed stream

BAD_TOKENS = ["-1", "18446744073709551615", "18446744073709551616", "nan", "NaN", "inf", "-inf", "infinity", "1e400", "-1e-400", "1e-400", "", '"', '""', "0x", "0X0x", "9" * 300, "1" + "0" * 25, "+5", "-0", "1.5.5", ".", "e5", "1e", "0x" + "f" * 33, "é", " ", "=", ",", ",,", "=,=", "@", "1@", "@1", "x", "1x", "x1", "/", "1/", "1/JOC", "1/2/3/4/5/6/7/8/9/10", "YES", "NONE", "4294967296", "340282366920938463463374607431768211456", "0.0000000004", "0.0000000005", "18446744073709551615.5", "18446744073709551616.0"]
MULTI = ["é", "日", "😀", " ", "　", "\u0085"]


def mutate(rng, text):
    r = rng.random()
    if r < 0.35:
        # replace one token (digits run, quoted string, or attribute value)
        import re
        toks = list(re.finditer(r"\d+(?:\.\d+)?|\"[^\"\n]*\"|(?<==)[A-Za-z0-9-]+", text))
        if toks:
            m = rng.choice(toks)
            return text[:m.start()] + rng.choice(BAD_TOKENS) + text[m.end():]
    if r < 0.5:
        k = rng.randint(0, len(text))
        return text[:k]
    lines = text.split("\n")
    if r < 0.6 and lines:
        k = rng.randrange(len(lines))
        return "\n".join(lines[:k])
    if r < 0.7 and lines:
        k = rng.randrange(len(lines))
        lines.insert(rng.randint(0, len(lines)), lines[k])
        return "\n".join(lines)
    if r < 0.8 and len(lines) > 1:
        a, b = rng.randrange(len(lines)), rng.randrange(len(lines))
        lines[a], lines[b] = lines[b], lines[a]
        return "\n".join(lines)
    if r < 0.9:
        import re
        spots = [m.start() for m in re.finditer(r"[=,\"@x/:]", text)]
        if spots:
            k = rng.choice(spots) + rng.choice([0, 1])
            return text[:k] + rng.choice(MULTI) + text[k:]
    k = rng.randint(0, len(text))
    return text[:k] + rng.choice(BAD_TOKENS + MULTI + ["\n", "\r", "\r\n", "#EXT", "#EXT-X-STREAM-INF:", '"']) + text[k + rng.choice([0, 0, 1, 3]):]


ALPHABET = ["#EXTM3U", "#EXT", "#EXTINF:", "#EXT-X-", "KEY:", "MAP:", "BYTERANGE:", "STREAM-INF:", "MEDIA:", "TARGETDURATION:", "METHOD=", "URI=", "NONE", "AES-128", "\n", "\r\n", ",", "=", '"', "@", "0x", "1", "9", ".", "-", "+", "e", " ", "\t", "é", "日", "😀", " ", "x", "/", "YES", "BANDWIDTH=", "ID=", "DURATION=", "TIME-OFFSET=", "IV="]


def random_text(rng, n=None):
    n = n or rng.randint(0, 40)
    return "".join(rng.choice(ALPHABET) for _ in range(n))


if __name__ == "__main__":
    import json, os
    from . import common as C
    json.dump(source_literals(), open(os.path.join(C.VERIF, "source_literals.json"), "w"), indent=0, ensure_ascii=False)
    print("written", len(source_literals()), "literals")
