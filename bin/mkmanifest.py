#!/usr/bin/env python3
"""Regenerates MANIFEST.json from the table below (claimed checks) + properties.jsonl (unclaimed)."""
import json, os, subprocess
V = os.path.dirname(os.path.dirname(os.path.abspath(__file__)))

NOTE = ("Trusted base: Lean 4.33 kernel (+ leanchecker re-check in the thorough tier); axioms per theorem from #print axioms "
        "(only propext, Classical.choice, Quot.sound; no sorry/native_decide/bv_decide/own axioms). The theorems are about the hand-written "
        "Lean model (lean/Hls/Model); the model is tied to /repo on every run by (a) the correspondence run: the Rust harness (real library, "
        "hooks on, catch_unwind per request) and the Lean driver answer the same requests and are compared on the observables this property "
        "gates on, (b) mini-translators that regenerate the enum/dispatch/foreign-tag tables from /repo/src. Modelled, not verified: std "
        "string/Duration/BTreeSet/StableVec semantics, derive_builder/strum/derive_more/shorthand generated code, derived PartialEq/Ord/Hash. ")

CLAIMS = {
    "C01": {
        "technique": "Lean 4 proof (segment assembly closed form, one segment per URI line in order, playlist-level values as the fold of the header tags, exact classification of the loop's rejections, closed forms of the attribute loops) + abstract playlists written from RFC 8216 with an independent expectation, run on library and model",
        "text": ("Proof (Lean 4, Props/C01.lean): segment_faithful - the segment flushed at a URI line is determined by the tags since the previous URI line and "
                 "nothing before it: duration/title = last EXTINF, byte range = last BYTERANGE, discontinuity = some DISCONTINUITY tag, program date-time, date "
                 "range, map with the keys in effect where it stands, URI, keys = keys in effect at the URI; segments_in_order - one segment per URI line, in "
                 "order, with that URI; built_keeps - build() changes number, IV completion and byte-range offset only (those are C07/C08); header_values - every "
                 "playlist-level value is the fold of the playlist-level tags (last tag of a kind wins, flags by presence), unknown tags in source order; "
                 "mediaStep_err_iff - the line loop rejects for exactly three reasons (master tag, URI without EXTINF, misplaced DISCONTINUITY-SEQUENCE); "
                 "map_faithful / dateRange_faithful / key_faithful (+ C02's) - each tag's parser equals the closed form in the last value written per attribute "
                 "name, whatever blanks surround names, '=', values and ','; quoted strings come back exactly (C02.quoted_values_exact); client attributes are typed "
                 "by clientStep. k1_counterexample - the recorded over-strict independent-segments rule. PARTIAL: 'no valid playlist is rejected' is proved for "
                 "the loop (exact rejection reasons) and characterised for build() by C08/C09; the decimal -> nanoseconds fact FL2 is a named hypothesis (C18). "
                 "Tie + oracle: abstract media playlists (what the text says) rendered in varied surface syntax; the library's report must equal the abstract "
                 "playlist field by field (segment list, URIs, durations to the ns, titles, flags, date ranges with typed client attributes, maps, byte ranges, all "
                 "playlist-level values, unknown tags) and the text must be accepted; library and model must agree on status and observation. String level with the VALUE as quantified object (Props/C03.lean): media_any_layout - any text whose lines classify into the lines the writer prints for p, up to comments, VERSION lines and swaps of independent lines, parses to exactly p; media_canonical_text. String level with the TEXT as quantified object (Props/C01Text.lean): segment_uris_text - for every text the media parser accepts (any builder configuration), the URIs of the reported segments are, one for one and in order, the trimmed non-empty lines behind #EXTM3U that do not start with '#' (nothing invented, dropped, merged or reordered); segment_count_text; every_plain_line_is_a_segment."),
        "design_ref": "DESIGN.md §0.4, §7 C01",
        "note": "K1 (independent-segments rule rejects mixed methods) reported as KNOWN-FINDING; K8 (prefix look-alike tags) was repaired by a fix: commit.",
    },
    "C02": {
        "technique": "Lean 4 proof (collection in source order, exact acceptance condition, closed forms of the attribute loops, exact recovery of quoted strings) + abstract master playlists written from RFC 8216 with an independently computed expected observation, run on library and model",
        "text": ("Proof (Lean 4, Props/C02.lean): master_lists_in_order - the five result lists are exactly the tags of their kind in source order, flags = presence, "
                 "start = last EXT-X-START, unknown tags in source order; master_accepted_iff - accepted exactly when every line is a master-playlist line and the "
                 "cross-tag rules of C13 hold for the collected lists (nothing else rejects); xmedia_faithful, sessionData_faithful, sessionKey_faithful, "
                 "start_faithful, streamData_faithful, streamInf_attrs_faithful - for any blanks around names, '=', values and ',', each parser equals the closed "
                 "form of Proofs/AttrFold: every field is the parse / unquoting of the LAST value written for its name; quoted_values_exact - NAME=\"string\" "
                 "attributes tokenize and unquote to exactly the strings, commas and '=' inside never split or truncate. Value-level parsers (integers to 2^64-1, "
                 "67 in-stream ids, enums, resolution, channels, codecs) are C18's theorems. Tie + oracle: abstract master playlists rendered in varied surface "
                 "syntax; the library's observation must EQUAL the one computed from the abstract playlist (exact rational rounding for binary32), and library and "
                 "model must agree. String level with the VALUE as quantified object (Props/C04.lean): master_any_layout / master_canonical_text - any text whose lines classify into the writer's lines for a valid value p (up to comments, VERSION lines, swaps of independent lines) parses to exactly p."),
        "design_ref": "DESIGN.md §0.4, §7 C02",
        "note": "K8 (prefix look-alike of a value-less tag taken for the tag) was found by this check and repaired by a fix: commit.",
    },
    "C03": {
        "technique": "Lean 4 proof (for every parser-producible media playlist free of one recorded shape, the parser's state machine run on the writer's typed lines returns exactly the same value; writer and parser key sets refine one specification; text level through the line-splitter lemmas) + exhaustive key/map/segment histories through try_from -> to_string -> try_from -> to_string on library and model",
        "text": ("Proof (Lean 4, Props/C03.lean with Proofs/KeyMirror.lean, Proofs/MediaRT.lean, Proofs/Render.lean): media_write_parse - for EVERY media playlist value "
                 "the parser can produce from any classified line list (entry points try_from / from_str / builder().allowable_excess_duration(e).parse), with "
                 "keys that text can express (text_lines_noNum proves this for every text) and free of the shape NoK2 (an EXT-X-KEY line between a segment's MAP "
                 "and its URI), the writer produces lines and the parser's state machine on those lines returns exactly the same value: playlist-level values, "
                 "segments, numbers, URIs, durations, titles, resolved byte ranges, flags, date ranges, maps with their key coverage, per-segment keys with their "
                 "effective IVs, unknown tags. The proof walks the writer's and the parser's state in lockstep: key_mirror / writer_refines (after the lines "
                 "emitted for a key, parser keys in effect = writer's announced set, both refine C06.KeySpec), reset_follows (the explicit METHOD=NONE the writer "
                 "prints when a key format is dropped), parsed_persist (keys never vanish in a parsed playlist), segment_lines (one segment through "
                 "C01.segment_faithful), segments_loop, built_reparsed + validOf_transfer (build() on the re-parsed segments gives the same segments and passes "
                 "validation), hdr_builder. media_roundtrip / media_fixed_point - the same through to_string() and the text parser, and byte-identical second "
                 "serialisation, under the per-line hypothesis LineRT (each written line's text classifies back to that line). media_roundtrip_wf - LineRT "
                 "discharged line kind by line kind (Proofs/LineRT*, TagRT, WrittenRT.written_lines_rt) from conditions on the value (MediaWF). "
                 "media_roundtrip_parsed - those conditions DERIVED for every playlist the parser returns (Proofs/ParsedRT, ParsedWF, ParsedMedia: raw lines are "
                 "trimmed single lines, unquote never yields a quote or line end, integers < 2^64, IV < 2^128, 1-9 one-byte versions, URI lines and unknown tags "
                 "classify the same way again; invariant StGood through the parser's loop and build): for every string s, parse s = ok p, NoK2 p and MediaOpen p "
                 "imply parse (to_string p) = ok p, where MediaOpen consists of facts about Rust's float formatting only (each EXTINF / DATERANGE duration, "
                 "the EXT-X-START offset and float-valued client attributes read back: FL2 / FL1, validated by sweeps, evaluated by the kernel on the concrete "
                 "example) plus 'SCTE35 values are plain tokens' (true of valid text). LineRT is proved for EVERY line kind the writer emits (Proofs/LineRT*, "
                 "TagRT, DateRangeRT). example_media: a concrete playlist meets all hypotheses and round-trips at string level. media_roundtrip_general / media_fixed_point_general - WITHOUT NoK2: for every parsed p, parse (to_string p) = ok (fixMaps p), where fixMaps only re-covers each EXT-X-MAP with the keys of its own segment, and to_string (fixMaps p) = to_string p: finding K2 is thereby characterised exactly. k2_counterexample - the statement "
                 "without NoK2 is false (recorded finding K2); k3_repaired - the former finding K3 now round-trips; control_roundtrip - non-vacuity. Tie + "
                 "oracle: EVERY key/map/segment event sequence over an 11-letter alphabet up to the length bound, long random histories with IV / "
                 "KEYFORMATVERSIONS, generated playlists with all 17 tags and the fixtures, through try_from -> to_string -> try_from -> to_string on library and "
                 "model; status, observation, D, R and F must agree; on the library R must be '=' and F '1' except on K2, which the model reproduces exactly."),
        "design_ref": "DESIGN.md §7 C03",
        "note": "Known finding K2 (key between MAP and URI) is reported as KNOWN-FINDING; K3 (reset followed by fewer key formats) and K4 (default KEYFORMATVERSIONS) were found by this check and repaired by fix: commits.",
    },
    "C04": {
        "technique": "Lean 4 proof (string level: for every text the master parser accepts, to_string then try_from gives the value back, modulo two stated facts about float formatting; typed-line level unconditional) + to_string/try_from round trip run on library and model",
        "text": ("Proof (Lean 4, Props/C04.lean): master_write_parse - for EVERY master playlist value the parser can produce, the parser's state machine run on the "
                 "lines the writer emits returns exactly that value (five lists in source order, both flags, start offset, unknown tags); it needs only that the value "
                 "passed the builder's validation, which parsed_valid derives. master_roundtrip - the same through to_string() and try_from() on text, using "
                 "lineItems_renderLines (Proofs/Render.lean: a written line list reads back as itself, STREAM-INF + URI pairing included) and the line-splitter lemmas, "
                 "under the per-line hypothesis LineRT (each written line's text classifies back to that line). master_fixed_point - the second serialisation is "
                 "byte-identical. master_roundtrip_wf - LineRT proved for EVERY line kind the master writer emits (Proofs/MediaTagRT, VariantRT, TagRT, LineRTAttr, "
                 "MasterWrittenRT.master_written_lines_rt) from conditions on the value (MasterWF). master_roundtrip_parsed - MasterWF DERIVED for every playlist "
                 "the parser returns (Proofs/ParsedMaster): for every string s, parseMaster s = ok p and MasterOpen p imply parseMaster (to_string p) = ok p, where "
                 "MasterOpen is two facts about Rust's float formatting (the EXT-X-START offset reads back: FL1; the three-decimal FRAME-RATE reads back: FL3 - "
                 "validated by sweeps, evaluated by the kernel on the concrete example). example_master: a concrete playlist with every kind of tag meets all "
                 "hypotheses and round-trips at string level. Tie + oracle: fixtures, generated and dense-combination master playlists through try_from -> to_string -> "
                 "try_from -> to_string on library and model (status, observation, association lists, R and F must agree); on the library R must be '=' and F '1'."),
        "design_ref": "DESIGN.md §0.4, §7 C04",
        "note": "K4 (default KEYFORMATVERSIONS dropped by the writer) was repaired by a fix: commit.",
    },
    "C12": {
        "technique": "Lean 4 proof at three layers (typed-line commutation and neutrality; closed forms of all attribute loops giving permutation / unknown-attribute / padding invariance; string-level dependence on trimmed non-empty lines only) + independently written text transformations run on library and model",
        "text": ("Proof (Lean 4, Props/C12.lean with Proofs/AttrFold, Proofs/Lines, Proofs/BTree): L2 - media_neutral_lines, master_neutral_lines (comment lines and any "
                 "EXT-X-VERSION tag are no-ops), mediaStep_comm (all 23x23 pairs of line kinds: lines touching different parts of the parser state commute), "
                 "media_rearrangement / master_rearrangement (every rearrangement generated by swaps of adjacent independent lines - playlist-level tags among each "
                 "other and with segment tags, the non-key tags of a segment, master tags of different kinds - parses to the same result, errors included), "
                 "media_unknown_tags / master_unknown_tags (removing unknown #EXT lines changes nothing but the unknown list, which is exactly those lines in source "
                 "order). L1 - every attribute loop (MAP, DATERANGE with client attributes, START, MEDIA, SESSION-DATA, DecryptionKey, StreamData, STREAM-INF extras) "
                 "equals a closed form in the last value written per name (fold_closed), hence *_attr_layout: equal results for attribute lists that are permutations "
                 "of each other without repeated names, with unknown attributes anywhere (AttrEquiv), and attrEquiv_padded: blanks around names, =, values and commas "
                 "never matter (tokenizer inversion attrPairs_render). L0 - media_lines_layout / master_lines_layout: the complete string-level parsers depend on the "
                 "text after #EXTM3U only through its trimmed non-empty lines, with lines_seen, crlf_irrelevant, blank_lines_irrelevant, line_padding_irrelevant, "
                 "trailing_space_irrelevant. Composition: classify_*_layout (a whole tag line in two spellings classifies to the same typed line, through the "
                 "dispatch table regenerated from the source), lineItems_rawEquiv, and media_presentation / master_presentation - two texts whose line items "
                 "classify into typed-line lists that agree up to comment / VERSION lines and swaps of independent lines give the same result through the "
                 "string-level entry points. known_names_match ties the 'known attribute' predicates to the attribute names matched in the current source "
                 "(Generated/AttrNames.lean). iframe_attr_layout / classify_iframe_layout / streamInf_attr_layout: the same for both STREAM-INF tags, the second over "
                 "the tag line plus the URI line behind it. The EXTINF / BYTERANGE value syntax (no attribute list) is outside these theorems "
                 "(run-validated). Tie + oracle: every base text (fixtures, generated media and "
                 "master playlists) and 11 kinds of transformations written in Python from RFC 8216 section 4 (singly and composed) must parse identically on library "
                 "and model, and each transformed text must parse to the observation of its original on the library; unknown-tag insertion must change the unknown list only."),
        "design_ref": "DESIGN.md §7 C12",
    },
    "C10": {
        "technique": "Lean 4 proof over the writers' typed lines (one VERSION line = required_version; RFC section-7 minimum of the written lines <= emitted <= max(minimum, documented slack)) + independent scan of the real text",
        "text": ("The model's writers are defined through typed lines (MediaPlaylist.writeLines / MasterPlaylist.writeLines, rendered by Line.render) and "
                 "validated text-for-text against to_string() by the other checks. Proof (Lean 4): media_version_line / media_version_present / "
                 "master_version_line (exactly one EXT-X-VERSION line, carrying required_version(), omitted iff 1 - for ANY playlist value, parsed or built), "
                 "media_version_sound / master_version_sound (rfcMin, computed from the written lines alone with RFC 8216 section 7's table incl. the "
                 "MAP-without-I-FRAMES-ONLY rule, never exceeds the emitted version), media_version_not_inflated (emitted <= max(rfcMin, slack) with "
                 "slack 6 for any MAP and 2 for a derived IV; full statement since the fix: that writes KEYFORMATVERSIONS whenever it is set - before it the "
                 "theorem needed the hypothesis NoDefaultVersions and K4 was its counterexample), master_version_not_inflated (emitted <= max(rfcMin, slack) with "
                 "slack 2 only for a session key carrying a derived IV, which text cannot express). Tie/oracle: generated and fixture playlists, the full "
                 "on/off lattice of version-relevant features and built playlists; V and the VERSION line must agree between library and model; an "
                 "independent Python scanner recomputes the RFC minimum from the real to_string() text."),
        "design_ref": "DESIGN.md §7 C10",
        "note": "K4 (a default KEYFORMATVERSIONS list counted for version 5 without being written) was repaired by a fix: commit.",
    },
    "C20": {
        "technique": "Lean 4 proof (setter commutation, push = segments, parser = build of that builder state, no panic, numbering of built playlists) + builder-script vs text differential run",
        "text": ("Proof (Lean 4) on the model: setters_commute / setter_last_wins / setter_push_commute / setters_then_pushes (every interleaving of the "
                 "setter calls with the segment pushes yields the same builder state), pushes_eq_segments (push_segment one by one = segments(vec) for "
                 "implicitly numbered segments), parser_is_builder + builder_text_agree (the text parser ends in build() of exactly the builder state a "
                 "user would create for the same content, so acceptance and resulting value coincide for every implicitly numbered content), "
                 "segment_number_last_wins / segment_number_none_resets (MediaSegmentBuilder::number: the last call decides; None takes an explicit number back), "
                 "build_never_panics (any builder whose byte-range values fit the integer type), built_numbering (every built playlist is gap-free, "
                 "implicit numbers = media_sequence + position, explicit numbers preserved), master_parser_is_builder, master_build_never_panics; the tag "
                 "builders' rules are C14. Tie: abstract contents realised as text, as push scripts with shuffled/interleaved setters and as segments(vec) "
                 "scripts must give the same status and observation on library and model and among each other; explicit numbers <= 64 through both paths "
                 "(no panic, numbering rule); every built value's serialisation must re-parse to its content. String level (Props/C20Text.lean): builder_text_agree_text - for every text whose lines classify and whose line loop ends outside a segment, the parser's answer (accepted or rejected, and the value) IS build() of the builder holding the loop's setter calls and its implicitly numbered segments; accepted_text_builds - every accepted text has a builder state that builds exactly the parsed value."),
        "design_ref": "DESIGN.md §7 C20",
        "note": "Known finding K9 (a built EXT-X-MAP cannot carry its key coverage) is reported as KNOWN-FINDING; K3-shaped key histories belong to C03; K4 was repaired.",
    },
    "C14": {
        "technique": "Lean 4 proof that each tag's decision table (finish / validate) is exactly the property's rule for ALL accumulator states + exhaustive attribute-subset differential run through text, enclosing playlist and builders",
        "text": ("Proof (Lean 4) on the model: media_build_ok_iff (ExtXMediaBuilder::validate + required fields accept iff TYPE, GROUP-ID, NAME present, URI for "
                 "SUBTITLES, no URI and an INSTREAM-ID for CLOSED-CAPTIONS, no INSTREAM-ID otherwise, FORCED only for SUBTITLES, not DEFAULT=YES with "
                 "AUTOSELECT=NO - for every builder state) and media_parse_ok_iff (the text parser ends in the same table), dateRange_finish_ok_iff, "
                 "dateRange_end_on_next, duration_text_rejected / duration_special_rejected (negative, NaN, infinite, too large durations are errors), "
                 "client_attribute_name_rejected, sessionData_finish_ok_iff (DATA-ID and exactly one of VALUE/URI), decryptionKey_finish_ok_iff + "
                 "decryptionKey_uri_nonempty + method_values + iv_syntax + versions_capacity, streamData_finish_ok_iff, iframe_needs_uri, yes_no_values, mediaType_values / hdcpLevel_values / inStreamId_values + enum_quote_rejected "
                 "(an enumerated value is accepted only if it is one of the names of the table regenerated from the source: dressed with quotes it is rejected), "
                 "start_needs_time_offset, decryptionKey_builder_ok_iff (METHOD and a non-blank URI, since the fix: 704a4ec; the empty URI the builder used to "
                 "accept was finding K6b). The one builder that does NOT validate (ExtXDateRangeBuilder) is stated as a _partial theorem with a counterexample "
                 "theorem and recorded as known finding K6a (a repair was withdrawn: the crate's own doc example violates the rule). Tie: exhaustive presence/value subsets of every tag as text, inside the enclosing master playlist and through the "
                 "public builders on library and model (accept/reject must agree) and against the rules written independently in Python. String level, order-free (Props/C14Text.lean): the attribute loops are replaced by their closed forms, so each rule is a statement about WHICH NAMES OCCUR in the attribute list (with well-formed values): sessionData_text_iff (accepted iff DATA-ID occurs and exactly one of VALUE / URI occurs), dateRange_text_iff (iff no malformed value, ID occurs, and END-ON-NEXT implies CLASS and neither DURATION nor END-DATE), decryptionKey_text_iff (iff no malformed value, METHOD occurs and some URI is non-blank), streamData_text_iff (BANDWIDTH), map_text_iff (URI), start_text_iff (TIME-OFFSET), each with its *_order_free corollary: two attribute lists that are rearrangements of each other are accepted or rejected together - a rule enforced for some attribute orders only contradicts these."),
        "design_ref": "DESIGN.md §7 C14",
        "note": "The lift from attribute text to accumulator state (the tokenizer + step fold) is exercised by the exhaustive run; the tokenizer inversion lemma attrPairs_render is proved in Proofs/Attr.lean.",
    },
    "C18": {
        "technique": "Lean 4 proofs of parse(show v) = v per type (whole tables for enums) + differential run with re-parse oracle + exhaustive binary32 sweep inside the harness",
        "text": ("Proof (Lean 4) on the model: every variant of EncryptionMethod, HdcpLevel, MediaType, PlaylistType, ProtocolVersion and all 67 InStreamId "
                 "values round-trip (decide over the tables regenerated from the source); channels_rt, resolution_rt, byteRange_rt (all values below 2^64), "
                 "codecs_rt, keyFormat_rt, closedCaptions_rt, keyFormatVersions_rt (1-9 items), value_hex_rt with the hex codec lemmas, float_accepts_finite "
                 "(the wrappers accept exactly the finite / finite non-negative literals), iv_rt (128-bit IV). Props/C18Tags.lean (second property file): the "
                 "composite tags - decryptionKey, sessionData, media (EXT-X-MEDIA incl. the builder's validation on re-reading), start, dateRange (client "
                 "attributes as a sorted map; string and hex values), iframeStreamInf, streamInf (two-line form), and line_media_playlist / line_master_playlist "
                 "(every line either writer emits classifies back to the same typed line). Props/C18Float.lean (third property file): FL1 as a theorem - float_roundtrip / ufloat_roundtrip (and "
                 "parseFloat_display for any format): the text printed for a finite value is read back as that value whenever the printing model's "
                 "digit search succeeds (DigitsFound, decidable; the kernel evaluates it on concrete values); secs_roundtrip reduces FL2 to two facts about "
                 "numbers. PARTIAL only in this: the remaining IEEE-754 facts are named hypotheses "
                 "(DigitsFound / the numeric core of FL2, FrameRateRT = FL3); they are validated by the correspondence run, by the implementation oracle "
                 "parse(to_string(v)) = v and by a sweep over binary32 bit patterns inside the harness (quick 2^25, thorough all 2^32 per wrapper), and "
                 "evaluated by the kernel on the concrete examples of C03 / C04."),
        "design_ref": "DESIGN.md §0.4, §7 C18",
        "note": "K4 (KEYFORMATVERSIONS=\"1\" dropped by the writer) was repaired by a fix: commit.",
    },
    "C17": {
        "technique": "Lean 4 proof over definitions REGENERATED from the 19 into_owned bodies on every run (translator) + differential/oracle run of into_owned, clone and the three parse entry points",
        "text": ("Translation + proof: bin/lib/translate.py re-reads every `fn into_owned` of /repo/src on every run and regenerates "
                 "lean/Hls/Generated/IntoOwned.lean (per target field: which source field feeds it through which ownership-only wrapper; any other expression "
                 "is a broken tie). Theorems (Lean 4) over that generated file: codecs_id … masterPlaylist_id (for all 19 types into_owned is the identity on "
                 "observable content - a swapped, dropped or altered field makes the theorem unprovable), entry_points_agree (TryFrom = FromStr = "
                 "builder.parse on a fresh builder; the translator also checks the three Rust entry points still have that shape), owned_same_text. Tie / "
                 "search: for every accepted generated/mutated value the real library must satisfy v.clone().into_owned() == v, equal observation, equal "
                 "to_string(), likewise clone(); the three entry points must give identical results on the same text. When the (purely syntactic) translator "
                 "cannot read a body any more - e.g. one rewritten to destructure self first - the generated file stays as last regenerated, the evidence says "
                 "so, and the tie for that run is the differential run alone, with streams a third of the thorough size."),
        "design_ref": "DESIGN.md §0.7b, §7 C17",
        "note": "clone() is #[derive(Clone)] (structural, trusted). The translator recognises only ownership-only wrappers; an into_owned body that alters, swaps or drops a field in a shape it CAN read makes a theorem unprovable, in a shape it cannot read it is left to the run (which caught the seeded into_owned changes by itself). The model's equality is structural; the library's was not for built playlists (StableVec compares capacity): finding K10, repaired by fix: d2b0df4 after the builder-script stream through into_owned / clone (owned_build_media) exposed it.",
    },
    "C05": {
        "technique": "Lean 4 proof that no text entry point of the model can return `panic` (every string, every builder configuration) + malformed-stream differential run gated on panicked-or-not + measured growth of running time",
        "text": ("Proof (Lean 4) on the model, which has an explicit `panic` result at every place where the Rust code can unwind: parseMedia_never_panics "
                 "(for EVERY builder configuration and EVERY string: TryFrom, FromStr, MediaPlaylistBuilder::parse), parseMaster_never_panics, types_never_panic / "
                 "tags_never_panic (every public tag and attribute type parser), show_never_panics (to_string() of ANY media playlist value never reaches the "
                 "writer's unreachable!), buildLoop_np / build_np together with items_byteRange (everything the classifier produces fits 64 bits, so "
                 "ByteRange::set_start inside build cannot fire). Termination: every model function is accepted by Lean's termination checker. Tie: mutants "
                 "of valid playlists/tags/values with boundary tokens, truncations, duplicated lines, multi-byte splices, and random texts, through every entry "
                 "point incl. to_string and re-parse; model and library are compared only on 'unwound or returned'; the oracle is 'the library never unwinds, "
                 "aborts or hangs'. PARTIAL: running time (linear / at most quadratic) is not expressible in the model; it is measured on the real library at "
                 "1x/2x/4x input sizes for four input families as EXECUTED INSTRUCTIONS (valgrind cachegrind, reproducible to < 1 %; 4x the input may take at "
                 "most 5.5x the instructions for the linear families and 24x when every segment adds a key format) and reported in coverage.timing; the wall "
                 "clock only bounds the absolute time. This measurement found that the repair a8c4d35 had made to_string() cubic in the number of active key "
                 "formats (repaired by fix: 2c2b5e4)."),
        "design_ref": "DESIGN.md §7 C05",
        "note": "Harness built with overflow-checks and debug-assertions so that arithmetic overflow unwinds. Growth bounds are measured (instruction counts), not proved.",
    },
    "C11": {
        "technique": "Lean 4 proof that the key listing is a canonical form of the RFC-level state + repeated/threaded/multi-process execution of the real parser + static scan for hash-order dependence",
        "text": ("In the model every function is deterministic, so the content of the proof is why a model without hidden inputs is faithful: listing_canonical "
                 "(two sorted duplicate-free listings of the same key state are equal), insert_comm, same_state_same_listing (two line histories reaching the same "
                 "RFC-level key state report the same key list), segment_keys_sorted (for every accepted text each segment's keys are strictly sorted in the "
                 "derived order), parse_is_a_function. PARTIAL by nature: threads, processes and hash seeds are runtime facts no model can exhibit; they are "
                 "executed: every text is parsed and re-serialised k times in one process, on 4 extra threads and in m fresh processes, and all full responses "
                 "(value, text, version, keys(), round trip) must be byte-identical and equal to the model's answer. Static tie: a scan of the parser modules "
                 "flags any HashSet/HashMap whose iteration can reach an output."),
        "design_ref": "DESIGN.md §7 C11",
        "note": "Schedules and hash seeds are sampled (k=5/50 repetitions, 4 threads, m=4/64 processes), not enumerated.",
    },
    "C09": {
        "technique": "Lean 4 proof (validator = exactly the three rules; integer rounding spec; soundness and completeness over line histories) + boundary differential run through text and builder",
        "text": ("Proof (Lean 4) on the model: roundedSecs_spec (rounding to the nearest second with halves up, in integer nanoseconds, for every duration), "
                 "validateSegments_iff (the validator accepts iff the duration rule holds for every segment, the byte ranges are well chained and the "
                 "independent-segments condition of the code holds), accepted_durations (for every builder configuration and every accepted line history no "
                 "reported segment exceeds target + allowance after rounding), too_long_rejected (a parsed segment breaking the rule rejects the playlist), "
                 "rule_whole_seconds. Tie: 1 ns steps around every x.5 boundary for targets up to 2^64-1 s and allowances {none,0,1,2 s, sub-second}, through the "
                 "builder (exact Durations, incl. magnitudes above 2^24 s where float rounding used to fail) and through text with the allowance configured on "
                 "the parsing builder; acceptance and reported durations must agree between library and model and match an independent integer formula. String level (Props/C08Text.lean): durations_text - for every accepted TEXT no segment handed out is longer (rounded) than target + allowance."),
        "design_ref": "DESIGN.md §7 C09",
        "note": "Text durations are exact below 2^23 s with <= 9 fractional digits (emulated f64 path, validated by the run).",
    },
    "C15": {
        "technique": "Lean 4 proof for every input string (never both; foreign tags rejected) over tables regenerated from the UnexpectedTag arms + exhaustive line-sequence differential run on both parsers",
        "text": ("Proof (Lean 4) on the model, at the level of input TEXT: never_both (no string is accepted by both parseMaster and parseMedia: an accepted media "
                 "text contains an EXT-X-TARGETDURATION item, which the master loop rejects), master_rejects_media_tags / media_rejects_master_tags (an accepted "
                 "text decomposes into classified items none of which is a foreign tag or, for master, a bare URI), header_required, streaminf_pairs / "
                 "streaminf_trailing (the line after STREAM-INF is part of that item; a dangling STREAM-INF is an error item). masterStep_err_iff and "
                 "mediaStep_foreign are proved against Generated.masterRejects / mediaRejects, which a mini-translator regenerates from the two parsers' "
                 "UnexpectedTag arms on every run (tables_match pins them to the 13 + 4 kinds of the property). Tie: every sequence of <= 3 (4) representative "
                 "lines behind the header, and all short headerless ones, on both parsers of library and model (status must agree) plus the property's "
                 "rejection rules evaluated in Python; generated playlists and fixtures crossed to the other parser; every media value-tag prefix with 30 values behind the colon (well-formed, other spellings, malformed) in a master playlist and the master tags likewise in a media playlist. String level (Props/C15Text.lean), about the characters of the text: master_rejects_text - in every text the master parser accepts, no line in tag position (every trimmed non-empty line except the one behind #EXT-X-STREAM-INF) starts with one of the ten media value-tag prefixes WHATEVER follows the colon, none is one of the three value-less media tags, none is a bare URI; media_rejects_text - no line of an accepted media playlist text (any builder configuration) starts with a master-tag prefix; media_prefix_kind / master_prefix_kind - a line with such a prefix classifies as that tag or as an error, never as an unknown tag (over the dispatch table regenerated from the source)."),
        "design_ref": "DESIGN.md §7 C15",
        "note": "A builder pre-configured with target_duration can accept a text without EXT-X-TARGETDURATION (API design; TryFrom/FromStr are what the property is about).",
    },
    "C16": {
        "technique": "Lean 4 proof (prefix stability of the parse/build pipeline, index-shift lemma for sliding, rejection inside an item) + all-windows / all-cuts differential run",
        "text": ("Proof (Lean 4) on the model: append_stable (if a line history and an extension without a new MEDIA-SEQUENCE line are both accepted, the "
                 "segments of the shorter are a prefix of the segments of the longer: identical numbers and content; read backwards: a cut at a line "
                 "boundary), cut_inside_item_rejected (a history that stops after EXTINF/BYTERANGE/DISCONTINUITY/KEY/MAP/PROGRAM-DATE-TIME/DATERANGE with no "
                 "URI line behind it is rejected), trailing_error_item_rejected (dangling STREAM-INF), built_shift + built_drop + built_prev_irrelevant + "
                 "slide_stable (dropping k segments, raising the media sequence by k and restating the first byte range leaves every remaining segment's "
                 "number, URI, byte range, keys and effective IV unchanged). Tie: for random live histories EVERY window [k,m) is rendered as a server would "
                 "and parsed by library and model; each history segment must have one identity (number, URI, resolved range, key set with effective IVs) in "
                 "all windows; generated playlists are cut at every line boundary (rejected or prefix; never accepted right behind a segment tag). String level (Props/C16Text.lean): append_stable_text - if a text ending at a line boundary is accepted and the same text with more text appended (not restating MEDIA-SEQUENCE) is accepted too, the segments of the shorter are a prefix of the segments of the longer (numbers and content included); rawLines_append, items_append_ok."),
        "design_ref": "DESIGN.md §7 C16",
        "note": "slide_stable is stated on the build loop (parsed segments -> reported segments); that the restated keys give the same parsed key sets is C06's refinement theorem.",
    },
    "C06": {
        "technique": "Lean 4 refinement proof (parser key-set update refines the RFC 4.3.2.4 specification, lifted to every accepted text) + exhaustive event-sequence differential run",
        "text": ("Proof (Lean 4) on the model, full strength at the level of input TEXT: abs_step (the parser's replace-by-format / clear-on-NONE update of the "
                 "sorted key set implements the specification step, absent KEYFORMAT = identity), rel_fold (induction over every line history), "
                 "keys_in_effect (for every builder configuration b and every string s with parseMediaWith b s = ok p: s decomposes into classified lines "
                 "and segment i of p reports exactly the specification's snapshot at its URI line, its map the snapshot at the EXT-X-MAP line, up to the "
                 "IV completion of C07), no_two_keys_same_format, decryptable_abs (keys() = snapshot without the marker). Tie: every event sequence up to the "
                 "length bound over {key in 4 formats x 2 payloads, NONE, MAP, segment}, random long sequences and generated playlists are run on the real "
                 "library and the model (per-segment/per-map key SETS must agree) and compared with an independent Python simulation of the RFC rule."),
        "design_ref": "DESIGN.md §7 C06",
        "note": "Gate is on key sets per segment/map (order is C11's subject).",
    },
    "C07": {
        "technique": "Lean 4 proof over the build loop (numbering, IV rule, writer strips derived IVs) + differential run with independent numbering/IV oracle",
        "text": ("Proof (Lean 4) on the model: numbering (every string accepted by any parse entry point yields segments numbered media_sequence + index, "
                 "all < 2^64), numbering_lines (media_sequence = value of the last EXT-X-MEDIA-SEQUENCE line wherever it stands, 0 if absent), completeIv_spec "
                 "(a key gets the segment number as IV exactly when AES-128, no IV attribute and format absent/identity; explicit IVs verbatim), "
                 "effective_ivs_lines (segment j's keys = keys in effect with the rule applied for number media_sequence + j), show_iv_free / stripIv_spec / "
                 "stripIv_completeIv (the writer never prints a derived IV and announces the key as written). Tie: random key histories x media sequences "
                 "up to the 64-bit limit placed at any line boundary on the real library and the model (numbers and effective IVs must agree), plus an "
                 "independent Python computation of numbers/IVs and a scan of the serialised text; MediaPlaylistBuilder scripts (push_segment / segments) "
                 "with implicit, permuted, partly and randomly explicit segment numbers and per-segment keys: numbering and effective IV of every built segment. "
                 "k7_counterexample: with media_sequence > 0 an explicitly numbered built segment keeps its slot index as number (recorded finding K7)."),
        "design_ref": "DESIGN.md §7 C07, §0.5",
        "note": "K7 (explicit numbers are slot indices; inconsistent numbering of built playlists when media_sequence > 0) reported as KNOWN-FINDING.",
    },
    "C08": {
        "technique": "Lean 4 proof (continuity validator <-> well-chained; build loop = declarative resolution; n@start text round trip) + exhaustive small-scope differential run",
        "text": ("Proof (Lean 4) on the model: validate_ranges_iff (the last_range_uri loop accepts iff every offset-less range directly follows a sub-range of "
                 "the same URI), built_ranges / ranges_lines (for every accepted line history the reported ranges are the declarative resolution: offset-less "
                 "= [prev.end, prev.end+len) saturating at 2^64-1, explicit = as written), not_chained_rejected, resolved_range_text + byteRange_roundtrip "
                 "(a resolved range is written n@start and re-parses to itself), map_range_verbatim. Tie: every sequence of <= 4 (5) segments over 2 URIs x "
                 "{none, explicit, implicit}, random boundary values, MAP ranges, on the real library and the model (uri/range/map-range per segment must "
                 "agree) and against an independent Python spec incl. re-parse of the written text. String level (Props/C08Text.lean): ranges_text - the same for every TEXT accepted by any parse entry point (the classifier only returns ranges that fit 64 bits)."),
        "design_ref": "DESIGN.md §7 C08",
        "note": "Theorem ranges_lines is stated over typed lines with byte-range values <= 2^64-1 (what ByteRange.parse guarantees).",
    },
    "C13": {
        "technique": "Lean 4 proof (validator = Boolean closed form <-> declarative consistency) + exhaustive/random differential run with independent rule oracle",
        "text": ("Proof (Lean 4) on the model: validateVariants_iff and validateSessionData_iff show, for ALL rendition lists, variant lists and "
                 "session-data lists, that the validator accepts iff every AUDIO/VIDEO/SUBTITLES/CLOSED-CAPTIONS reference is defined by a rendition of "
                 "the matching type, NONE and a caption group are not mixed (order-free) and (DATA-ID, LANGUAGE) pairs are pairwise distinct; "
                 "build_ok_iff lifts this to MasterPlaylistBuilder::build, parseMaster_consistent to every value returned by the parser, "
                 "assembleMaster_ok_iff gives the converse over typed lines; associatedWith_iff + isAssociated_iff_partial characterise the rendition "
                 "lookup (the NONE-vs-group-named-NONE quirk K5 is excluded by hypothesis, proved as counterexample and recorded as known finding). "
                 "Tie: exhaustive reduced-scope and random full-scope configurations are rendered to text, parsed by the real library and by the model "
                 "(status, observation and lookup result must agree) and compared with an independent statement of the rule."),
        "design_ref": "DESIGN.md §7 C13",
        "note": "The tag-level acceptance of EXT-X-MEDIA etc. is C14's subject; here all tags are individually valid.",
    },
    "C19": {
        "technique": "Lean 4 proof of the ==/cmp/hash laws on the model + differential correspondence on all pairs",
        "text": ("Proof (Lean 4) on the model: kfv_laws and f32_laws state, for the three hand-written impls (KeyFormatVersions, Float, UFloat), "
                 "for ALL values: == is reflexive and true exactly on identical content, cmp = Equal iff ==, equal values feed identical bytes to the "
                 "hasher, cmp is antisymmetric and transitive; decryptionKey_cmp_laws / extXKey_cmp_laws prove the derived order of the keys "
                 "(which the library's key set relies on) is a lawful total order, Equal only on identical keys; the generic lemmas cmpList/cmpOpt/ordThen_lawful lift the "
                 "laws through every derived (lexicographic) impl. Tie: every pair over the carriers is run on the real library and on the model and "
                 "the outcomes of ==, cmp and hash-equality must agree; the six laws are additionally evaluated on the implementation's own answers "
                 "for all pairs and triples, including derived composites (playlists, segments, keys, variant streams, values)."),
        "design_ref": "DESIGN.md §7 C19",
        "note": "Derived impls are trusted to be structural. +0 == -0 for Float is IEEE equality by design (content compared up to that).",
    },
}


def main():
    props = [json.loads(l) for l in open(os.path.join(V, "properties.jsonl"))]
    hooks_commit = subprocess.run(["git", "-C", "/repo", "log", "--format=%h", "--grep=hls_m3u8_verif"], capture_output=True, text=True).stdout.split()
    m = {
        "version": 1,
        "setup_cmd": "bash bin/setup.sh",
        "hooks": {
            "guard": "hls_m3u8_verif",
            "enable": "RUSTFLAGS='--cfg hls_m3u8_verif' (set by harness/.cargo/config.toml [build] rustflags)",
            "baseline_off_cmd": "cd /repo && cargo test --workspace --no-fail-fast --offline",
            "source_commits": hooks_commit,
            "add_only": True,
        },
        "engines": [
            {"name": "lean-model", "path": "lean/", "serves_properties": sorted(CLAIMS), "kind_free_text": "Lean 4 executable model (Hls/Model), property theorems (Hls/Props), helper lemmas (Hls/Proofs), tables regenerated from /repo/src (Hls/Generated), line-protocol driver (Main.lean)"},
            {"name": "rust-harness", "path": "harness/", "serves_properties": sorted(CLAIMS), "kind_free_text": "Rust runner over the real library (path dependency on /repo, --cfg hls_m3u8_verif), same line protocol"},
            {"name": "orchestrator", "path": "bin/check", "serves_properties": sorted(CLAIMS), "kind_free_text": "translate -> prove + axiom audit -> build -> correspondence -> oracle -> verdict/evidence"},
        ],
        "checks": [],
        "not_applicable": [],
        "notes": "Technique family: machine-checked proof in Lean 4 over a hand-written model tied to the code by a differential correspondence run and regenerated tables. See DESIGN.md.",
    }
    for p in props:
        pid = p["id"]
        if pid in CLAIMS:
            c = CLAIMS[pid]
            m["checks"].append({
                "property_id": pid,
                "quick_cmd": "python3 bin/check %s --tier quick" % pid,
                "thorough_cmd": "python3 bin/check %s --tier thorough" % pid,
                "evidence_file": "evidence/%s.json" % pid,
                "replay_cmd_template": "python3 bin/check %s --replay {path}" % pid,
                "engine": "lean-model",
                "level_claimed": {"category": "proof", "text": c["text"], "design_ref": c["design_ref"]},
                "level_note": NOTE + c.get("note", ""),
                "technique": c["technique"],
            })
        else:
            m["not_applicable"].append({"property_id": pid, "reason": "not claimed yet: check under construction (model and harness exist; theorems/orchestration for this property not registered yet)"})
    json.dump(m, open(os.path.join(V, "MANIFEST.json"), "w"), indent=1)
    print("claimed:", sorted(CLAIMS))


if __name__ == "__main__":
    main()
