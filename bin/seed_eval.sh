#!/usr/bin/env bash
# usage: seed_eval.sh <property> <worktree> [<seed-id>]
# Confirms a seeded change from a sub-agent (existing tests pass with it; its demonstration fails with it and
# passes without it), runs the property's quick check with the change applied to /repo, restores /repo, and
# stores patch + demo + meta.json under /verif/seeded/<seed-id>/.
set -u
prop=$1; wt=$2; id=${3:-$prop-$(date +%s)}
out=/verif/seeded/$id; mkdir -p "$out"
cd "$wt" || exit 9
export CARGO_TARGET_DIR=$wt/target CARGO_NET_OFFLINE=true
git -C "$wt" diff -- src > "$out/patch.diff"
[ -s "$out/patch.diff" ] || cp "$wt/patch.diff" "$out/patch.diff"
cp "$wt/tests/demo_mut.rs" "$out/demo.rs" 2>/dev/null || cp "$wt/demo.rs" "$out/demo.rs"
cp "$wt/meta.txt" "$out/agent_meta.txt" 2>/dev/null
# 1. with the change: existing suite (without the demo) and the demo
mv tests/demo_mut.rs /tmp/demo_mut_$$.rs 2>/dev/null
suite_with=$(cargo test --offline 2>&1 | grep -E "^test result" | awk '{p+=$4; f+=$6} END {print p" passed, "f" failed"}')
mv /tmp/demo_mut_$$.rs tests/demo_mut.rs
demo_with=$(cargo test --offline --test demo_mut 2>&1 | grep -E "^test result" | head -1)
# 2. without the change: the demo
git apply -R "$out/patch.diff" && demo_without=$(cargo test --offline --test demo_mut 2>&1 | grep -E "^test result" | head -1); git apply "$out/patch.diff"
# 3. the check against /repo with the change applied
git -C /repo apply "$out/patch.diff" || { echo "patch does not apply to /repo"; exit 8; }
unset CARGO_TARGET_DIR
check_out=$(cd /verif && timeout 3000 python3 bin/check "$prop" --tier quick 2>&1 | grep -E "VIOLATION|violation|OK \(|KNOWN" | cut -c1-300 | head -12)
git -C /repo checkout -- . && ( cd /verif/harness && CARGO_TARGET_DIR=/verif/harness/target cargo build --offline >/dev/null 2>&1 )
# the run above rewrote the evidence file from a modified tree: put the committed one back
git -C /verif checkout -- evidence/$prop.json 2>/dev/null; rm -f /verif/evidence/replays/$prop-*.json
( cd /verif && python3 - <<PY
import sys; sys.path.insert(0,'bin')
from lib import translate
translate.regenerate()
PY
) >/dev/null 2>&1
detected=no; echo "$check_out" | grep -q "^VIOLATION" && detected=yes
python3 - "$out" "$prop" "$suite_with" "$demo_with" "$demo_without" "$detected" <<PY
import json,sys
out,prop,sw,dw,dwo,det=sys.argv[1:7]
meta={"property":prop,"existing_suite_with_change":sw,"demo_with_change":dw,"demo_without_change":dwo,
      "check_cmd":"python3 bin/check %s --tier quick (with patch.diff applied to /repo, then restored)"%prop,
      "detected_by_check":det=="yes","check_output":open('/dev/stdin').read() if False else ""}
json.dump(meta,open(out+"/meta.json","w"),indent=1)
PY
echo "$check_out" > "$out/check_output.txt"
echo "== $id: suite_with=[$suite_with] demo_with=[$demo_with] demo_without=[$demo_without] detected=$detected"
echo "$check_out" | head -6
