#!/usr/bin/env bash
# usage: seed_recheck.sh <seed-id> : apply /verif/seeded/<id>/patch.diff to /repo, run the property's quick check, restore.
set -u
id=$1; d=/verif/seeded/$id
prop=$(python3 -c "import json;print(json.load(open('$d/meta.json'))['property'])")
git -C /repo apply "$d/patch.diff" || exit 8
out=$(cd /verif && timeout 3000 python3 bin/check "$prop" --tier quick 2>&1 | grep -E "VIOLATION|violation|OK \(" | cut -c1-300 | head -8)
git -C /repo checkout -- . && ( cd /verif/harness && CARGO_TARGET_DIR=/verif/harness/target CARGO_NET_OFFLINE=true cargo build --offline >/dev/null 2>&1 )
# the run above rewrote the evidence file from a modified tree: put the committed one back
git -C /verif checkout -- evidence/$prop.json 2>/dev/null; rm -f /verif/evidence/replays/$prop-*.json
( cd /verif && python3 -c "
import sys; sys.path.insert(0,'bin')
from lib import translate; translate.regenerate()" ) >/dev/null 2>&1
echo "$out" > "$d/check_output.txt"
det=no; echo "$out" | grep -q "^VIOLATION" && det=yes
python3 - "$d" "$det" <<'PY'
import json,sys
d,det=sys.argv[1:3]
m=json.load(open(d+"/meta.json")); m["detected_by_check"]=(det=="yes"); json.dump(m,open(d+"/meta.json","w"),indent=1)
PY
echo "== $id ($prop): detected=$det"; echo "$out" | head -3
