#!/usr/bin/env bash
# usage: bin/dev/seed_sweep.sh <seed>... : run every quick check with other seeds on the unchanged tree (no alarm may appear).
# Development aid; restores the committed evidence afterwards.
cd "$(dirname "$0")/../.." || exit 9
for s in "$@"; do
  for i in $(seq -w 1 20); do
    out=$(VERIF_SEED=$s python3 bin/check C$i --tier quick 2>&1)
    if echo "$out" | grep -q "^VIOLATION"; then echo "seed $s C$i: ALARM"; echo "$out" | grep -E "violation|VIOLATION" | head -4; else echo -n "."; fi
  done
  echo " seed $s done"
done
git checkout -- evidence/ 2>/dev/null
