#!/usr/bin/env bash
# development aid: confirm and evaluate a round of seeded changes in parallel.
# usage: par_seed_eval.sh <suffix> <prop> [<prop> ...]      e.g.  par_seed_eval.sh h C01 C03 C04
# For each property P the sub-agent's worktree is /tmp/wt-P<suffix>. Per seed, in parallel:
#   1. in the worktree: existing suite with the change (demo moved aside), demo with the change, demo without it;
#   2. on a scratch copy of /repo + /verif (never /repo itself): apply the patch, run P's quick check;
#   3. store patch, demo, author's notes, outcomes under /verif/seeded/P-<suffix>/.
set -u
suf=$1; shift
VERIF=/verif; SCRATCH=${SCRATCH:-/tmp/par_seed_eval.$$}
mkdir -p "$SCRATCH"
one() {
  prop=$1; wt=/tmp/wt-${prop}${suf}; id=$prop-$suf
  out=$VERIF/seeded/$id; mkdir -p "$out"
  cd "$wt" || { echo "== $id: no worktree"; return; }
  git -C "$wt" diff -- src > "$out/patch.diff"
  [ -s "$out/patch.diff" ] || cp "$wt/patch.diff" "$out/patch.diff"
  cp "$wt/tests/demo_mut.rs" "$out/demo.rs" 2>/dev/null || cp "$wt/demo.rs" "$out/demo.rs"
  cp "$wt/meta.txt" "$out/agent_meta.txt" 2>/dev/null
  export CARGO_TARGET_DIR=$wt/target CARGO_NET_OFFLINE=true
  mv tests/demo_mut.rs $SCRATCH/demo_$id.rs 2>/dev/null
  suite_with=$(cargo test --offline 2>&1 | grep -E "^test result" | awk '{p+=$4; f+=$6} END {print p" passed, "f" failed"}')
  mv $SCRATCH/demo_$id.rs tests/demo_mut.rs
  demo_with=$(cargo test --offline --test demo_mut 2>&1 | grep -E "^test result" | head -1)
  git apply -R "$out/patch.diff" && demo_without=$(cargo test --offline --test demo_mut 2>&1 | grep -E "^test result" | head -1); git apply "$out/patch.diff"
  unset CARGO_TARGET_DIR
  d=$SCRATCH/$id; rm -rf $d; mkdir -p $d
  rsync -a --exclude target --exclude .git /repo/ $d/repo/
  rsync -a --exclude .git --exclude seeded --exclude harmless --exclude evidence/replays $VERIF/ $d/verif/
  sed -i "s#path = \"/repo\"#path = \"$d/repo\"#" $d/verif/harness/Cargo.toml
  ( cd $d/repo && git init -q . && git add -A >/dev/null && git -c user.email=x@x -c user.name=x commit -qm base ) 2>/dev/null
  ( cd $d/repo && git apply "$out/patch.diff" ) || { echo "== $id: patch does not apply to /repo"; return; }
  check_out=$(cd $d/verif && HLS_REPO=$d/repo timeout 3000 python3 bin/check "$prop" --tier quick 2>&1 | grep -E "VIOLATION|violation|OK \(|KNOWN" | cut -c1-300 | head -12)
  rm -rf $d
  detected=no; echo "$check_out" | grep -q "^VIOLATION" && detected=yes
  echo "$check_out" > "$out/check_output.txt"
  python3 - "$out" "$prop" "$suite_with" "$demo_with" "$demo_without" "$detected" <<'PY'
import json,sys
out,prop,sw,dw,dwo,det=sys.argv[1:7]
meta={"property":prop,"existing_suite_with_change":sw,"demo_with_change":dw,"demo_without_change":dwo,
      "check_cmd":"python3 bin/check %s --tier quick (with patch.diff applied to a copy of /repo)"%prop,
      "detected_by_check":det=="yes"}
json.dump(meta,open(out+"/meta.json","w"),indent=1)
PY
  echo "== $id: suite_with=[$suite_with] demo_with=[${demo_with:13:40}] demo_without=[${demo_without:13:30}] detected=$detected"
  echo "$check_out" | grep -v KNOWN | head -3
}
for p in "$@"; do one $p & done
wait
rm -rf "$SCRATCH"
