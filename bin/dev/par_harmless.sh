#!/usr/bin/env bash
# development aid: apply every BEHAVIOUR-PRESERVING patch of harmless/<id>/patch.diff to a scratch copy of /repo and run every
# quick check on it, in parallel (one worker per patch, up to W at a time). No check should raise an alarm.
# usage: par_harmless.sh [workers=7] [id-glob='*']
set -u
W=${1:-7}; GLOB=${2:-*}
VERIF=/verif; SCRATCH=${SCRATCH:-/tmp/par_harmless.$$}
rm -rf "$SCRATCH"; mkdir -p "$SCRATCH"
ids=$(cd $VERIF/harmless && ls -d $GLOB | sort)
run_one() {
  id=$1; d=$SCRATCH/$id; mkdir -p $d
  rsync -a --exclude target --exclude .git /repo/ $d/repo/
  rsync -a --exclude .git --exclude seeded --exclude harmless --exclude evidence/replays $VERIF/ $d/verif/
  sed -i "s#path = \"/repo\"#path = \"$d/repo\"#" $d/verif/harness/Cargo.toml
  ( cd $d/repo && git init -q . && git add -A >/dev/null && git -c user.email=x@x -c user.name=x commit -qm base ) 2>/dev/null
  ( cd $d/repo && git apply $VERIF/harmless/$id/patch.diff ) || { echo "== $id: patch does not apply"; rm -rf $d; return; }
  res=$VERIF/harmless/$id/result.txt; : > $res
  for i in $(seq -w 1 20); do
    o=$(cd $d/verif && HLS_REPO=$d/repo timeout 3000 python3 bin/check C$i --tier quick 2>&1)
    if echo "$o" | grep -q "^VIOLATION"; then
      echo "C$i: ALARM" >> $res
      echo "$o" | grep -E "violation|VIOLATION|translator|broken" | cut -c1-300 | head -6 >> $res
    else
      echo "C$i: quiet" >> $res
    fi
  done
  echo "== $id: $(grep -c quiet $res) quiet, $(grep -c ALARM $res) alarms"; grep -A3 ALARM $res | head -12
  rm -rf $d
}
n=0
for id in $ids; do
  run_one $id &
  n=$((n+1))
  if [ $((n % W)) -eq 0 ]; then wait; fi
done
wait
rm -rf "$SCRATCH"
