#!/usr/bin/env bash
# development aid: re-check every seeded faulty version (seeded/<id>/patch.diff) in parallel.
# usage: par_recheck.sh [workers=6] [tier=quick] [id-glob='*']
# Each worker gets its own scratch copy of /repo (working tree) and of /verif under $SCRATCH (default /tmp/par_recheck), with
# the harness pointed at that copy, so /repo itself is never touched. Results: detected yes/no per seed on stdout,
# seeded/<id>/meta.json (detected_by_check) and check_output.txt refreshed. The scratch copies are removed at the end.
set -u
W=${1:-6}; TIER=${2:-quick}; GLOB=${3:-*}
VERIF=/verif; SCRATCH=${SCRATCH:-/tmp/par_recheck.$$}
rm -rf "$SCRATCH"; mkdir -p "$SCRATCH"
ids=$(cd $VERIF/seeded && ls -d $GLOB | sort)
n=0
for k in $(seq 1 $W); do
  d=$SCRATCH/$k; mkdir -p $d
  rsync -a --exclude target --exclude .git /repo/ $d/repo/
  rsync -a --exclude .git --exclude seeded --exclude harmless --exclude evidence/replays $VERIF/ $d/verif/
  sed -i "s#path = \"/repo\"#path = \"$d/repo\"#" $d/verif/harness/Cargo.toml
  ( cd $d/repo && git init -q . && git add -A >/dev/null && git -c user.email=x@x -c user.name=x commit -qm base ) 2>/dev/null
done
i=0
for id in $ids; do
  k=$(( i % W + 1 )); i=$(( i + 1 ))
  echo $id >> $SCRATCH/$k/todo
done
worker() {
  k=$1; d=$SCRATCH/$k
  [ -f $d/todo ] || return 0
  while read id; do
    prop=$(python3 -c "import json;print(json.load(open('$VERIF/seeded/$id/meta.json'))['property'])")
    ( cd $d/repo && git apply $VERIF/seeded/$id/patch.diff ) || { echo "== $id ($prop): patch does not apply"; continue; }
    out=$(cd $d/verif && HLS_REPO=$d/repo timeout 3000 python3 bin/check "$prop" --tier $TIER 2>&1 | grep -E "VIOLATION|violation|OK \(" | cut -c1-300 | head -8)
    ( cd $d/repo && git checkout -q -- . )
    det=no; echo "$out" | grep -q "^VIOLATION" && det=yes
    echo "$out" > $VERIF/seeded/$id/check_output.txt
    python3 - "$VERIF/seeded/$id" "$det" <<'PY'
import json,sys
d,det=sys.argv[1:3]
m=json.load(open(d+"/meta.json")); m["detected_by_check"]=(det=="yes"); json.dump(m,open(d+"/meta.json","w"),indent=1)
PY
    echo "== $id ($prop): detected=$det"
  done < $d/todo
}
for k in $(seq 1 $W); do worker $k & done
wait
rm -rf "$SCRATCH"
