#!/usr/bin/env bash
# usage: try_seed.sh <seed-id> <property> [tier]   — apply seeded/<id>/patch.diff to /repo, run the check, restore
id=$1; prop=$2; tier=${3:-quick}
cd /verif
git -C /repo apply /verif/seeded/$id/patch.diff || exit 8
timeout 3000 python3 bin/check $prop --tier $tier 2>&1 | grep -E "VIOLATION|violation|OK \(|KNOWN" | cut -c1-300 | head -8
git -C /repo checkout -- .
( cd harness && CARGO_TARGET_DIR=/verif/harness/target cargo build --offline >/dev/null 2>&1 )
git checkout -- evidence/$prop.json 2>/dev/null
python3 - <<PY >/dev/null 2>&1
import sys; sys.path.insert(0,'bin')
from lib import translate
translate.regenerate()
PY
git status --short | grep -v "^??" | head -5
