#!/usr/bin/env bash
# usage: bin/dev/refactor_eval.sh <id> <patch.diff> [<description.txt>]
# Applies a BEHAVIOUR-PRESERVING patch to /repo, runs every quick check, restores /repo, and stores the patch and the
# outcome under /verif/harmless/<id>/. No check should raise an alarm; a `no-failing-input-found` line means that a proof
# obligation, a translator or the correspondence no longer goes through although no property fails (allowed, but noted).
set -u
id=$1; patch=$2; desc=${3:-}
out=/verif/harmless/$id; mkdir -p "$out"
cp "$patch" "$out/patch.diff"; [ -n "$desc" ] && cp "$desc" "$out/description.txt"
git -C /repo apply "$out/patch.diff" || { echo "patch does not apply"; exit 8; }
: > "$out/result.txt"
for i in $(seq -w 1 20); do
  o=$(cd /verif && timeout 3000 python3 bin/check C$i --tier quick 2>&1)
  if echo "$o" | grep -q "^VIOLATION"; then
    echo "C$i: ALARM" >> "$out/result.txt"
    echo "$o" | grep -E "violation|VIOLATION|translator|broken" | cut -c1-300 | head -6 >> "$out/result.txt"
  else
    echo "C$i: quiet" >> "$out/result.txt"
  fi
done
git -C /repo checkout -- . && ( cd /verif/harness && CARGO_TARGET_DIR=/verif/harness/target CARGO_NET_OFFLINE=true cargo build --offline >/dev/null 2>&1 )
git -C /verif checkout -- evidence/ 2>/dev/null
( cd /verif && python3 -c "
import sys; sys.path.insert(0,'bin')
from lib import translate; translate.regenerate()" ) >/dev/null 2>&1
( cd /verif && git status --short lean/Hls/Generated | head -3 )
echo "== $id: $(grep -c quiet "$out/result.txt") quiet, $(grep -c ALARM "$out/result.txt") alarms"; grep -A3 ALARM "$out/result.txt" | head -20
