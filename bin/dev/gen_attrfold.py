#!/usr/bin/env python3
"""development helper: prints the uniform closed-form proof script for an attribute loop"""
import sys
def proof(tag, keys, extra_simp=""):
    out=[]
    out.append(f"theorem {tag}.fold_closed (ps : List (Str × Str)) : foldRes {tag}.step {{}} ps = {tag}.closed ps := by")
    out.append("  induction ps using snoc_induction with")
    out.append("  | hnil => rfl")
    out.append("  | hsnoc l kv ih =>")
    out.append("    obtain ⟨k, v⟩ := kv")
    out.append("    rw [foldRes_snoc, ih]")
    out.append(f"    simp only [{tag}.closed, List.any_append, List.any_cons, List.any_nil, Bool.or_false, lastVal_snoc, lastValQ_snoc]")
    out.append(f"    by_cases hb : l.any {tag}.bad = true")
    out.append("    · simp [hb]")
    out.append(f"    · simp only [hb, Bool.false_or, if_false, {tag}.step, {tag}.bad, badAt{extra_simp}]")
    for i,k in enumerate(keys):
        k, f = (k if isinstance(k, tuple) else (k, None))
        out.append(f"      by_cases h{i} : (k == \"{k}\".toList) = true")
        if f is None:
            out.append(f"      · have e := eq_of_beq h{i}; subst e; simp [optParse, Res.toOption, Res.isOk]")
        else:
            out.append(f"      · have e := eq_of_beq h{i}; subst e")
            out.append(f"        cases hr : {f} <;> simp_all [Res.isOk, Res.toOption, optParse, badAt]")
        out.append(f"      have h{i} : (k == \"{k}\".toList) = false := by simpa using h{i}")
    out.append("      simp only [*, Bool.false_eq_true, if_false, Bool.false_and, Bool.or_false]; rfl")
    return "\n".join(out)
if __name__=="__main__":
    print(proof(sys.argv[1], sys.argv[2].split(",")))
