#!/usr/bin/env bash
# MANIFEST.setup_cmd: build the Lean model + proofs + driver and the Rust harness, offline.
set -euo pipefail
cd "$(dirname "$0")/.."
export CARGO_NET_OFFLINE=true
( cd lean && lake build Hls hlsdriver )
( cd harness && cargo build --offline )
echo "setup ok"
