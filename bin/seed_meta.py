#!/usr/bin/env python3
"""complete /verif/seeded/<id>/meta.json (origin, author's description incl. what the change needs to manifest, what was run)"""
import json, os, sys
for sid in sys.argv[1:]:
    d = os.path.join(os.path.dirname(os.path.dirname(os.path.abspath(__file__))), "seeded", sid)
    m = json.load(open(os.path.join(d, "meta.json")))
    desc = open(os.path.join(d, "agent_meta.txt")).read().strip() if os.path.exists(os.path.join(d, "agent_meta.txt")) else ""
    m["origin"] = "written by an independent sub-agent that was given only the property text and a scratch worktree of /repo (nothing from /verif)"
    m["description_by_author"] = desc
    m["what_was_run"] = [
        "cargo test --offline in the scratch worktree with the change (existing suite, demo moved aside): %s" % m["existing_suite_with_change"],
        "cargo test --offline --test demo_mut with the change: %s" % m["demo_with_change"],
        "the same after git apply -R patch.diff: %s" % m["demo_without_change"],
        "git -C /repo apply patch.diff; %s; git -C /repo checkout -- .  (see check_output.txt)" % m["check_cmd"].split(" (")[0],
    ]
    m.pop("check_output", None)
    json.dump(m, open(os.path.join(d, "meta.json"), "w"), indent=1)
    print(sid, "detected" if m["detected_by_check"] else "NOT detected")
